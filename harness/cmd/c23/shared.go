//go:build verif

package main

import (
	"context"
	"fmt"
	"sync"
	"time"

	openfgav1 "github.com/openfga/api/proto/openfga/v1"

	"github.com/openfga/openfga/internal/verifharness/lib/rec"
	"github.com/openfga/openfga/pkg/storage"
	"github.com/openfga/openfga/pkg/storage/storagewrappers/sharediterator"
)

// fakeReader is the inner datastore: every Read* call returns the next scripted iterator
// (script [-1] = the call fails).  With `same` set every call returns a fresh copy of script 0.
type fakeReader struct {
	storage.RelationshipTupleReader
	mu      sync.Mutex
	scripts [][]int
	same    bool
	next    int
	created []*scripted[*openfgav1.Tuple]
	// trigger (see scripted.onTrig): script index (-1: every script) and position
	trigIdx, trigPos int
	onTrig           func()
}

func (f *fakeReader) open() (storage.TupleIterator, error) {
	f.mu.Lock()
	defer f.mu.Unlock()
	var s []int
	if f.same {
		s = f.scripts[0]
	} else if f.next < len(f.scripts) {
		s = f.scripts[f.next]
	}
	f.next++
	if len(s) == 1 && s[0] == -1 {
		return nil, mkErr(20)
	}
	it, _ := mkInner(s, itemTuple, false)
	sc := it.(*scripted[*openfgav1.Tuple])
	if f.onTrig != nil && (f.trigIdx < 0 || f.trigIdx == f.next-1) {
		sc.hasTrig, sc.trigPos, sc.onTrig = true, f.trigPos, f.onTrig
	}
	f.created = append(f.created, sc)
	return sc, nil
}

func (f *fakeReader) opens() int {
	f.mu.Lock()
	defer f.mu.Unlock()
	return f.next
}

func (f *fakeReader) Read(ctx context.Context, store string, filter storage.ReadFilter, options storage.ReadOptions) (storage.TupleIterator, error) {
	return f.open()
}
func (f *fakeReader) ReadStartingWithUser(ctx context.Context, store string, filter storage.ReadStartingWithUserFilter, options storage.ReadStartingWithUserOptions) (storage.TupleIterator, error) {
	return f.open()
}
func (f *fakeReader) ReadUsersetTuples(ctx context.Context, store string, filter storage.ReadUsersetTuplesFilter, options storage.ReadUsersetTuplesOptions) (storage.TupleIterator, error) {
	return f.open()
}

// openKey calls one of the three shared entry points; key = method*16 + k.
func openKey(ctx context.Context, ds *sharediterator.IteratorDatastore, key int, higher bool) (storage.TupleIterator, error) {
	cons := storage.ConsistencyOptions{}
	if higher {
		cons.Preference = openfgav1.ConsistencyPreference_HIGHER_CONSISTENCY
	}
	k := key % 16
	switch key / 16 {
	case 0:
		return ds.Read(ctx, "store", storage.ReadFilter{Object: fmt.Sprintf("doc:%d", k), Relation: "r"}, storage.ReadOptions{Consistency: cons})
	case 1:
		return ds.ReadStartingWithUser(ctx, "store", storage.ReadStartingWithUserFilter{
			ObjectType: "doc", Relation: fmt.Sprintf("r%d", k),
			UserFilter: []*openfgav1.ObjectRelation{{Object: "user:u"}}}, storage.ReadStartingWithUserOptions{Consistency: cons})
	default:
		return ds.ReadUsersetTuples(ctx, "store", storage.ReadUsersetTuplesFilter{Object: fmt.Sprintf("doc:%d", k), Relation: "r"},
			storage.ReadUsersetTuplesOptions{Consistency: cons})
	}
}

const idleTime = 100 * time.Millisecond

// shared ops: [0 key higher] open, [1 h cancelled] Next, [2 h cancelled] Head, [3 h] Stop,
// [4] let every stored item expire
func runShared(w *rec.Writer, c *caseSpec, id rec.V) {
	reader := &fakeReader{scripts: c.In}
	// ops with context mode 2 use tctx, which the underlying iterator of script Trig[0] cancels
	// from inside its Next at position Trig[1]
	tctx, tcancel := context.WithCancel(bg)
	defer tcancel()
	if len(c.Trig) == 2 {
		reader.trigIdx, reader.trigPos, reader.onTrig = c.Trig[0], c.Trig[1], tcancel
		w.Stat("shared_cancel_mid_batch_schedules", 1)
	}
	st := sharediterator.NewSharedIteratorDatastoreStorage(sharediterator.WithSharedIteratorDatastoreStorageLimit(c.P))
	idle := time.Hour
	if c.Timed {
		idle = idleTime
	}
	ds := sharediterator.NewSharedIteratorDatastore(reader, st,
		sharediterator.WithMaxAdmissionTime(time.Hour), sharediterator.WithMaxIdleTime(idle))
	cctx, cancel := context.WithCancel(bg)
	cancel()
	type hinfo struct {
		it      storage.TupleIterator
		inst    int // index into reader.created of the shared instance, -1 for bypass
		stopped bool
	}
	var handles []*hinfo
	keyInst := map[int]int{}
	live := map[int]int{} // instance -> handles not yet stopped
	segStart := time.Now()
	discarded := false
	out := make([]rec.V, 0, len(c.SOps))
	for _, o := range c.SOps {
		switch o[0] {
		case 0:
			before := reader.opens()
			it, err := openKey(bg, ds, o[1], o[2] == 1)
			if err != nil {
				out = append(out, resV(0, err))
				continue
			}
			kind := 1
			inst := -1
			if _, isRaw := it.(*scripted[*openfgav1.Tuple]); isRaw {
				kind = 2
			} else if reader.opens() > before {
				kind = 0
				inst = len(reader.created) - 1
				keyInst[o[1]] = inst
				live[inst]++
			} else {
				inst = keyInst[o[1]]
				live[inst]++
			}
			handles = append(handles, &hinfo{it: it, inst: inst})
			out = append(out, resV(kind+1, nil))
		case 1, 2:
			if o[1] >= len(handles) {
				out = append(out, resV(0, nil))
				continue
			}
			ctx := bg
			if o[2] == 1 {
				ctx = cctx
			} else if o[2] == 2 {
				ctx = tctx
			}
			var t *openfgav1.Tuple
			var err error
			if o[0] == 1 {
				t, err = handles[o[1]].it.Next(ctx)
			} else {
				t, err = handles[o[1]].it.Head(ctx)
			}
			out = append(out, resV(tupleItem(t), err))
		case 3:
			if o[1] < len(handles) {
				h := handles[o[1]]
				h.it.Stop()
				if !h.stopped && h.inst >= 0 {
					live[h.inst]--
				}
				h.stopped = true
			}
			out = append(out, resV(0, nil))
		default:
			if time.Since(segStart) > idleTime/2 {
				discarded = true
			}
			time.Sleep(idleTime + idleTime/2)
			// the timers of the instances without live handles are observable: the underlying
			// iterator gets stopped.  The generator opens and stops a canary right before this op,
			// whose timer is the last one to fire.
			deadline := time.Now().Add(10 * time.Second)
			for {
				ok := true
				for _, inst := range keyInst {
					if live[inst] == 0 && reader.created[inst].stopCount() == 0 {
						ok = false
					}
				}
				if ok {
					break
				}
				if time.Now().After(deadline) {
					discarded = true
					break
				}
				time.Sleep(2 * time.Millisecond)
			}
			time.Sleep(5 * time.Millisecond)
			keyInst = map[int]int{}
			segStart = time.Now()
			out = append(out, resV(0, nil))
		}
	}
	if c.Timed && time.Since(segStart) > idleTime/2 {
		discarded = true
	}
	if discarded {
		w.Stat("shared_timing_discarded", 1)
		return
	}
	ps := make([]probe, len(reader.created))
	for i, s := range reader.created {
		ps[i] = s
	}
	sops := make([]rec.V, len(c.SOps))
	for i, o := range c.SOps {
		sops[i] = rec.LI(o)
	}
	w.Stat("shared_ops", len(c.SOps))
	w.Case(c, id, lli(c.In), rec.I(c.P), rec.L(sops...), rec.L(out...), obsV(ps), rec.LI(c.Trig))
}

// idealSeq: what every reader of a script must observe: the items before the first error, then
// that error (class+1; 1 = done) for ever.
func idealSeq(script []int) ([]int, int) {
	var items []int
	for _, e := range script {
		if e%2 == 1 {
			return items, e/2 + 1
		}
		items = append(items, e/2)
	}
	return items, 1
}

// free-running clones: P goroutines open the same key and read concurrently with their own mix
// of Head and Next; some stop early, some start late.  The property is checked here, directly.
func runSharedFree(w *rec.Writer, c *caseSpec, id rec.V) {
	reader := &fakeReader{scripts: c.In, same: true}
	// Trig = [position, mode]: one more clone (the victim) reads with a context that the
	// underlying iterator cancels from inside its Next at that position, i.e. in the middle of
	// the batch the victim's call is fetching; mode 0: the victim's first read comes before the
	// other clones start, mode 1: it races with them.  The others must not notice.
	tctx, tcancel := context.WithCancel(bg)
	defer tcancel()
	if len(c.Trig) == 2 {
		reader.trigIdx, reader.trigPos, reader.onTrig = -1, c.Trig[0], tcancel
		w.Stat("sharedfree_cancel_mid_batch", 1)
	}
	st := sharediterator.NewSharedIteratorDatastoreStorage()
	idle, admission := time.Hour, time.Hour
	if c.Timed {
		// expiry races with the readers: several underlying iterators may be created, every
		// reader must still see one complete sequence
		idle, admission = 200*time.Microsecond, 500*time.Microsecond
	}
	ds := sharediterator.NewSharedIteratorDatastore(reader, st,
		sharediterator.WithMaxAdmissionTime(admission), sharediterator.WithMaxIdleTime(idle))
	wantItems, wantErr := idealSeq(c.In[0])
	var mu sync.Mutex
	var fails []string
	fail := func(s string) {
		mu.Lock()
		fails = append(fails, s)
		mu.Unlock()
	}
	var wg sync.WaitGroup
	root := rec.NewRand(c.Seed)
	if len(c.Trig) == 2 {
		victim := func() {
			it, err := openKey(bg, ds, c.Q, false)
			if err != nil {
				fail(fmt.Sprintf("victim: open failed: %v", err))
				return
			}
			defer it.Stop()
			for i := 0; i <= len(wantItems)+1; i++ {
				if _, err := it.Next(tctx); err != nil {
					return
				}
			}
		}
		if c.Trig[1] == 0 {
			victim()
		} else {
			wg.Add(1)
			go func() { defer wg.Done(); victim() }()
		}
	}
	for g := 0; g < c.P; g++ {
		r := root.Fork()
		wg.Add(1)
		go func(g int) {
			defer wg.Done()
			if g%4 == 3 {
				time.Sleep(time.Duration(r.Intn(300)) * time.Microsecond)
			}
			it, err := openKey(bg, ds, c.Q, false)
			if err != nil {
				fail(fmt.Sprintf("clone %d: open failed: %v", g, err))
				return
			}
			defer it.Stop()
			stopAfter := -1
			if g%3 == 1 {
				stopAfter = r.Intn(len(wantItems) + 1)
			}
			n := 0
			for {
				if n == stopAfter {
					it.Stop()
					if _, err := it.Next(bg); classify(err) != 1 {
						fail(fmt.Sprintf("clone %d: Next after Stop is not ErrIteratorDone", g))
					}
					return
				}
				var hv *openfgav1.Tuple
				var herr error
				peeked := r.Chance(1, 3)
				if peeked {
					hv, herr = it.Head(bg)
				}
				v, err := it.Next(bg)
				if peeked && (tupleItem(hv) != tupleItem(v) || classify(herr) != classify(err)) {
					fail(fmt.Sprintf("clone %d: Head and the following Next disagree at position %d", g, n))
					return
				}
				if err != nil {
					if n != len(wantItems) || classify(err) != wantErr {
						fail(fmt.Sprintf("clone %d: ended with error class %d after %d items, want class %d after %d", g, classify(err)-1, n, wantErr-1, len(wantItems)))
					}
					// a bypassed read hands out the inner reader's own iterator, whose scripted
					// error is one-shot; only the shared iterator promises a sticky error
					_, isRaw := it.(*scripted[*openfgav1.Tuple])
					if _, err2 := it.Next(bg); !isRaw && classify(err2) != wantErr {
						fail(fmt.Sprintf("clone %d: the terminal error is not sticky", g))
					}
					return
				}
				if n >= len(wantItems) || tupleItem(v)-1 != wantItems[n] {
					fail(fmt.Sprintf("clone %d: item %d is wrong or beyond the underlying sequence", g, n))
					return
				}
				n++
			}
		}(g)
	}
	wg.Wait()
	if !c.Timed && reader.opens() != 1 {
		fails = append(fails, fmt.Sprintf("%d underlying iterators were created for one key within the admission time", reader.opens()))
	}
	for _, f := range fails {
		w.PropFail("shared iterator (free-running clones): "+f, c)
	}
	w.Stat("sharedfree_clones", c.P)
	w.Stat("sharedfree_underlying_opens", reader.opens())
	timed := 0
	if c.Timed {
		timed = 1
	}
	w.Case(c, id, rec.I(len(c.In[0])), rec.I(c.P), rec.I(timed), rec.I(len(fails)))
}
