//go:build verif

package main

import (
	"context"
	"errors"
	"fmt"
	"os"
	"sort"
	"strings"
	"sync"
	"time"

	openfgav1 "github.com/openfga/api/proto/openfga/v1"
	"google.golang.org/grpc/codes"
	"google.golang.org/grpc/status"

	"github.com/openfga/openfga/internal/check"
	"github.com/openfga/openfga/internal/graph"
	"github.com/openfga/openfga/internal/modelgraph"
	"github.com/openfga/openfga/internal/telemetry"
	"github.com/openfga/openfga/internal/validation"
	"github.com/openfga/openfga/internal/verifharness/lib/rec"
	"github.com/openfga/openfga/internal/verifharness/lib/scen"
	"github.com/openfga/openfga/pkg/server"
	"github.com/openfga/openfga/pkg/storage"
	"github.com/openfga/openfga/pkg/storage/memory"
	"github.com/openfga/openfga/pkg/tuple"
	"github.com/openfga/openfga/pkg/typesystem"
)

// ---------------------------------------------------------------------------------------------
// counting datastore: which read shapes reach the datastore, per server and API method

type countDS struct {
	storage.OpenFGADatastore
	name string
	mu   sync.Mutex
	n    map[string]int
}

func (c *countDS) hit(ctx context.Context, shape string) {
	m := telemetry.RPCInfoFromContext(ctx).Method
	c.mu.Lock()
	c.n[m+" "+shape]++
	c.mu.Unlock()
}

func flag(b bool, s string) string {
	if b {
		return s
	}
	return ""
}

func isPrefix(o string) bool { return o != "" && o[len(o)-1] == ':' }

func (c *countDS) Read(ctx context.Context, store string, f storage.ReadFilter, o storage.ReadOptions) (storage.TupleIterator, error) {
	c.hit(ctx, "read"+flag(f.User != "", "_user")+flag(len(f.Conditions) > 0, "_conds")+flag(isPrefix(f.Object), "_prefix")+
		flag(f.Object == "", "_noobj")+flag(f.Relation == "", "_norel"))
	return c.OpenFGADatastore.Read(ctx, store, f, o)
}

func (c *countDS) ReadPage(ctx context.Context, store string, f storage.ReadFilter, o storage.ReadPageOptions) ([]*openfgav1.Tuple, string, error) {
	c.hit(ctx, "page")
	return c.OpenFGADatastore.ReadPage(ctx, store, f, o)
}

func (c *countDS) ReadUserTuple(ctx context.Context, store string, f storage.ReadUserTupleFilter, o storage.ReadUserTupleOptions) (*openfgav1.Tuple, error) {
	c.hit(ctx, "rut"+flag(len(f.Conditions) > 0, "_conds")+flag(f.Relation == "", "_norel"))
	return c.OpenFGADatastore.ReadUserTuple(ctx, store, f, o)
}

func (c *countDS) ReadUsersetTuples(ctx context.Context, store string, f storage.ReadUsersetTuplesFilter, o storage.ReadUsersetTuplesOptions) (storage.TupleIterator, error) {
	emptyRel, bare := false, false
	for _, r := range f.AllowedUserTypeRestrictions {
		switch x := r.GetRelationOrWildcard().(type) {
		case *openfgav1.RelationReference_Relation:
			if x.Relation == "" {
				emptyRel = true
			}
		case nil:
			bare = true
		}
	}
	c.hit(ctx, "usersets"+flag(len(f.AllowedUserTypeRestrictions) == 0, "_norestr")+flag(len(f.Conditions) > 0, "_conds")+
		flag(emptyRel, "_emptyrel")+flag(bare, "_bare")+flag(isPrefix(f.Object), "_prefix"))
	return c.OpenFGADatastore.ReadUsersetTuples(ctx, store, f, o)
}

func (c *countDS) ReadStartingWithUser(ctx context.Context, store string, f storage.ReadStartingWithUserFilter, o storage.ReadStartingWithUserOptions) (storage.TupleIterator, error) {
	c.hit(ctx, "rswu"+flag(f.ObjectIDs != nil, "_oids")+flag(len(f.Conditions) > 0, "_conds")+flag(len(f.UserFilter) == 0, "_nousers")+
		flag(f.Relation == "", "_norel")+flag(o.WithResultsSortedAscending, "_sorted"))
	return c.OpenFGADatastore.ReadStartingWithUser(ctx, store, f, o)
}

func (c *countDS) Close() {}

// ---------------------------------------------------------------------------------------------
// servers

type srvInst struct {
	name string
	s    *server.Server
	cnt  *countDS
	v2   bool // Check / BatchCheck run on the weighted-graph engine (which does not use the combined reader)
}

type farm struct {
	ds   storage.OpenFGADatastore
	srvs []*srvInst
}

func newFarm() *farm {
	f := &farm{ds: memory.New()}
	mk := func(name string, v2 bool, pipeline bool, exps ...string) {
		cnt := &countDS{OpenFGADatastore: f.ds, name: name, n: map[string]int{}}
		s := server.MustNewServerWithOpts(
			server.WithDatastore(cnt),
			server.WithContextPropagationToDatastore(true),
			server.WithExperimentals(exps...),
			server.WithListObjectsPipelineEnabled(pipeline),
			// every cache on
			server.WithCheckQueryCacheEnabled(true),
			server.WithCheckQueryCacheTTL(10*time.Minute),
			server.WithCheckIteratorCacheEnabled(true),
			server.WithCheckIteratorCacheTTL(10*time.Minute),
			server.WithCheckIteratorCacheMaxResults(1000),
			server.WithListObjectsIteratorCacheEnabled(true),
			server.WithListObjectsIteratorCacheTTL(10*time.Minute),
			server.WithListObjectsIteratorCacheMaxResults(1000),
			server.WithSharedIteratorEnabled(true),
			server.WithSharedIteratorTTL(10*time.Minute),
			server.WithCacheControllerEnabled(true),
			server.WithCacheControllerTTL(10*time.Minute),
			server.WithCheckCacheLimit(200000),
			// no deadline-induced partial answers on a loaded machine
			server.WithRequestTimeout(60*time.Second),
			server.WithListObjectsDeadline(60*time.Second),
			server.WithListUsersDeadline(60*time.Second),
			server.WithListObjectsMaxResults(1000),
			server.WithListUsersMaxResults(1000),
		)
		f.srvs = append(f.srvs, &srvInst{name: name, s: s, cnt: cnt, v2: v2})
	}
	mk("plain", false, false)
	mk("opt", false, false, "enable-check-optimizations", "enable-list-objects-optimizations")
	mk("wg", true, true, "weighted_graph_check", "pipeline_list_objects")
	return f
}

// refuted reader shapes that an engine may issue THROUGH the combined reader without this check
// failing outright (their effect is then judged on the answers): the pipeline's Conditions filter,
// the sorted read of the weight-2 fast path and the empty user filter of the optimised ListObjects.
func shapeExpected(srv *srvInst, method, shape string) bool {
	method = strings.ToLower(method)
	if srv.v2 && (method == "check" || method == "batchcheck") {
		return true // weighted-graph engine: reads bypass the combined reader
	}
	if strings.Contains(shape, "_nousers") && !(srv.name == "opt" && method == "listobjects") {
		return false // known: the optimised ListObjects issues it for a typed-wildcard user (lo_wildcard_empty_user_filter)
	}
	bad := []string{"_user", "_prefix", "_norestr", "_emptyrel", "_oids", "page"}
	for _, b := range bad {
		if strings.Contains(shape, b) {
			return false
		}
	}
	if strings.Contains(shape, "_conds") {
		return strings.HasPrefix(shape, "rswu") && (method == "listobjects" || method == "streamedlistobjects")
	}
	if strings.Contains(shape, "_norel") && !strings.HasPrefix(shape, "read") {
		return false
	}
	return true
}

func (f *farm) close(w *rec.Writer) {
	for _, s := range f.srvs {
		keys := make([]string, 0, len(s.cnt.n))
		for k := range s.cnt.n {
			keys = append(keys, k)
		}
		sort.Strings(keys)
		for _, k := range keys {
			parts := strings.SplitN(k, " ", 2)
			w.Stat("ds_"+s.name+"_"+parts[0]+"_"+parts[1], s.cnt.n[k])
			if !shapeExpected(s, parts[0], parts[1]) {
				w.PropFail(fmt.Sprintf("engine %s/%s issues the read shape %q through the combined reader, for which contextual tuples are filtered differently from stored ones (combined_*_refuted_*)",
					s.name, parts[0], parts[1]), map[string]any{"kind": "shape", "server": s.name, "method": parts[0], "shape": parts[1]})
			}
		}
		s.s.Close()
	}
}

// ---------------------------------------------------------------------------------------------
// requests and canonical outcomes

type checkQ struct{ Obj, Rel, User string }
type loQ struct{ Type, Rel, User string }
type luQ struct {
	Obj, Rel    string
	FType, FRel string
}
type exQ struct{ Obj, Rel string }

func errClass(err error) string {
	st, ok := status.FromError(err)
	if !ok {
		if errors.Is(err, context.DeadlineExceeded) || errors.Is(err, context.Canceled) {
			return "Etimeout"
		}
		return "Eunknown"
	}
	if st.Code() == codes.DeadlineExceeded || st.Code() == codes.Canceled {
		return "Etimeout"
	}
	return fmt.Sprintf("E%d", int(st.Code()))
}

func ctxKeys(ts []scen.Tuple) *openfgav1.ContextualTupleKeys {
	if len(ts) == 0 {
		return nil
	}
	c := &openfgav1.ContextualTupleKeys{}
	for _, t := range ts {
		c.TupleKeys = append(c.TupleKeys, t.Proto())
	}
	return c
}

type target struct {
	env *scen.Env
	hc  bool // HIGHER_CONSISTENCY: bypass the caches
}

func (t target) cons() openfgav1.ConsistencyPreference {
	if t.hc {
		return openfgav1.ConsistencyPreference_HIGHER_CONSISTENCY
	}
	return openfgav1.ConsistencyPreference_UNSPECIFIED
}

func (sv *srvInst) check(ctx context.Context, t target, q checkQ, ct []scen.Tuple) string {
	resp, err := sv.s.Check(ctx, &openfgav1.CheckRequest{
		StoreId: t.env.StoreID, AuthorizationModelId: t.env.Model.GetId(),
		TupleKey:         &openfgav1.CheckRequestTupleKey{Object: q.Obj, Relation: q.Rel, User: q.User},
		ContextualTuples: ctxKeys(ct), Context: scen.Struct(t.env.S.ReqCtx), Consistency: t.cons(),
	})
	out := "F"
	if err != nil {
		out = errClass(err)
	} else if resp.GetAllowed() {
		out = "T"
	}
	if os.Getenv("C04_DEBUG") != "" {
		fmt.Fprintf(os.Stderr, "CHECK %s store=%s %v ctx=%d hc=%v -> %s\n", sv.name, t.env.StoreID[20:], q, len(ct), t.hc, out)
	}
	return out
}

type batchItem struct {
	q  checkQ
	ct []scen.Tuple
}

func (sv *srvInst) batch(ctx context.Context, t target, items []batchItem) []string {
	out := make([]string, len(items))
	for lo := 0; lo < len(items); lo += 40 {
		hi := min(lo+40, len(items))
		req := &openfgav1.BatchCheckRequest{StoreId: t.env.StoreID, AuthorizationModelId: t.env.Model.GetId(), Consistency: t.cons()}
		for i := lo; i < hi; i++ {
			it := items[i]
			req.Checks = append(req.Checks, &openfgav1.BatchCheckItem{
				TupleKey:         &openfgav1.CheckRequestTupleKey{Object: it.q.Obj, Relation: it.q.Rel, User: it.q.User},
				ContextualTuples: ctxKeys(it.ct), Context: scen.Struct(t.env.S.ReqCtx), CorrelationId: fmt.Sprintf("c%d", i),
			})
		}
		resp, err := sv.s.BatchCheck(ctx, req)
		for i := lo; i < hi; i++ {
			if err != nil {
				out[i] = errClass(err)
				continue
			}
			r := resp.GetResult()[fmt.Sprintf("c%d", i)]
			switch {
			case r == nil:
				out[i] = "Emissing"
			case r.GetError() != nil:
				out[i] = fmt.Sprintf("E%d", int(r.GetError().GetInputError())+int(r.GetError().GetInternalError()))
			case r.GetAllowed():
				out[i] = "T"
			default:
				out[i] = "F"
			}
		}
	}
	return out
}

func (sv *srvInst) listObjects(ctx context.Context, t target, q loQ, ct []scen.Tuple) string {
	resp, err := sv.s.ListObjects(ctx, &openfgav1.ListObjectsRequest{
		StoreId: t.env.StoreID, AuthorizationModelId: t.env.Model.GetId(), Type: q.Type, Relation: q.Rel, User: q.User,
		ContextualTuples: ctxKeys(ct), Context: scen.Struct(t.env.S.ReqCtx), Consistency: t.cons(),
	})
	if err != nil {
		return errClass(err)
	}
	objs := append([]string{}, resp.GetObjects()...)
	sort.Strings(objs)
	if os.Getenv("C04_DEBUG") != "" {
		fmt.Fprintf(os.Stderr, "LO %s store=%s %v ctx=%d hc=%v -> %v\n", sv.name, t.env.StoreID[20:], q, len(ct), t.hc, objs)
	}
	return "[" + strings.Join(objs, " ") + "]"
}

func userString(u *openfgav1.User) string {
	switch x := u.GetUser().(type) {
	case *openfgav1.User_Object:
		return x.Object.GetType() + ":" + x.Object.GetId()
	case *openfgav1.User_Userset:
		return x.Userset.GetType() + ":" + x.Userset.GetId() + "#" + x.Userset.GetRelation()
	case *openfgav1.User_Wildcard:
		return x.Wildcard.GetType() + ":*"
	}
	return "?"
}

func (sv *srvInst) listUsers(ctx context.Context, t target, q luQ, ct []scen.Tuple) string {
	ot, oid := scen.SplitObj(q.Obj)
	req := &openfgav1.ListUsersRequest{
		StoreId: t.env.StoreID, AuthorizationModelId: t.env.Model.GetId(),
		Object: &openfgav1.Object{Type: ot, Id: oid}, Relation: q.Rel,
		UserFilters: []*openfgav1.UserTypeFilter{{Type: q.FType, Relation: q.FRel}},
		Context:     scen.Struct(t.env.S.ReqCtx), Consistency: t.cons(),
	}
	for _, x := range ct {
		req.ContextualTuples = append(req.ContextualTuples, x.Proto())
	}
	resp, err := sv.s.ListUsers(ctx, req)
	if err != nil {
		return errClass(err)
	}
	var us []string
	for _, u := range resp.GetUsers() {
		us = append(us, userString(u))
	}
	sort.Strings(us)
	if os.Getenv("C04_DEBUG") != "" {
		fmt.Fprintf(os.Stderr, "LU %s store=%s %v ctx=%d hc=%v -> %v\n", sv.name, t.env.StoreID[20:], q, len(ct), t.hc, us)
	}
	return "[" + strings.Join(us, " ") + "]"
}

func canonNode(n *openfgav1.UsersetTree_Node) string {
	if n == nil {
		return "nil"
	}
	var sb strings.Builder
	sb.WriteString(n.GetName())
	switch v := n.GetValue().(type) {
	case *openfgav1.UsersetTree_Node_Leaf:
		switch l := v.Leaf.GetValue().(type) {
		case *openfgav1.UsersetTree_Leaf_Users:
			us := append([]string{}, l.Users.GetUsers()...)
			sort.Strings(us)
			sb.WriteString("{users " + strings.Join(us, " ") + "}")
		case *openfgav1.UsersetTree_Leaf_Computed:
			sb.WriteString("{computed " + l.Computed.GetUserset() + "}")
		case *openfgav1.UsersetTree_Leaf_TupleToUserset:
			var cs []string
			for _, c := range l.TupleToUserset.GetComputed() {
				cs = append(cs, c.GetUserset())
			}
			sort.Strings(cs)
			sb.WriteString("{ttu " + l.TupleToUserset.GetTupleset() + " -> " + strings.Join(cs, " ") + "}")
		}
	case *openfgav1.UsersetTree_Node_Union:
		sb.WriteString("{union")
		for _, k := range v.Union.GetNodes() {
			sb.WriteString(" " + canonNode(k))
		}
		sb.WriteString("}")
	case *openfgav1.UsersetTree_Node_Intersection:
		sb.WriteString("{inter")
		for _, k := range v.Intersection.GetNodes() {
			sb.WriteString(" " + canonNode(k))
		}
		sb.WriteString("}")
	case *openfgav1.UsersetTree_Node_Difference:
		sb.WriteString("{diff " + canonNode(v.Difference.GetBase()) + " \\ " + canonNode(v.Difference.GetSubtract()) + "}")
	}
	return sb.String()
}

func (sv *srvInst) expand(ctx context.Context, t target, q exQ, ct []scen.Tuple) string {
	resp, err := sv.s.Expand(ctx, &openfgav1.ExpandRequest{
		StoreId: t.env.StoreID, AuthorizationModelId: t.env.Model.GetId(),
		TupleKey:         &openfgav1.ExpandRequestTupleKey{Object: q.Obj, Relation: q.Rel},
		ContextualTuples: ctxKeys(ct), Consistency: t.cons(),
	})
	if err != nil {
		return errClass(err)
	}
	return canonNode(resp.GetTree().GetRoot())
}

func isErr(s string) bool { return strings.HasPrefix(s, "E") }

// codes.Canceled / DeadlineExceeded and the API codes cancelled (2058) / deadline_exceeded (4004) /
// throttled_timeout_error (3500): nothing a request's own content decides
func isTransient(s string) bool {
	return s == "Etimeout" || s == "E2058" || s == "E3500" || s == "E4004"
}

// equal up to "both are errors"
func sameOutcome(a, b string) bool {
	if isErr(a) && isErr(b) {
		return true
	}
	return a == b
}

// ---------------------------------------------------------------------------------------------
// one scenario

// a request kind bound to a server: ask(target, contextual tuples) -> canonical outcome
type probe struct {
	api   string // check | listobjects | listusers | expand
	srv   *srvInst
	label string
	ask   func(ctx context.Context, t target, ct []scen.Tuple) string
	// the Check atoms a mismatch implicates (for the classification by the oracle)
	atoms func(got, want string) []checkQ
	lu    *luQ // the ListUsers request, for the attribution through the ListUsers algorithm model
}

type mismatch struct {
	API, Server, Request, Phase string
	Store, Level                int
	Got, Want                   string
	GotFresh, WantFresh         []string
	Kind                        string // cached | semantic | unstable
	Contextual                  []string
	atoms                       []checkQ
	ctxIdx                      []int
	lu                          *luQ
}

func splitList(s string) []string {
	s = strings.TrimSuffix(strings.TrimPrefix(s, "["), "]")
	if s == "" {
		return nil
	}
	return strings.Split(s, " ")
}

func symDiff(a, b []string) []string {
	m := map[string]int{}
	for _, x := range a {
		m[x] |= 1
	}
	for _, x := range b {
		m[x] |= 2
	}
	var out []string
	for x, v := range m {
		if v != 3 {
			out = append(out, x)
		}
	}
	sort.Strings(out)
	return out
}

const hangAfter = 25 * time.Second

const levels = 4 // stored_0 (only the invalid leftovers) ⊂ stored_1 ⊂ stored_2 ⊂ stored_3 (everything)

func runAPICase(ctx context.Context, w *rec.Writer, fm *farm, s *scen.Scenario, seed uint64, tier string) {
	r := rec.NewRand(seed)
	full, err := scen.NewEnvOn(ctx, fm.ds, s)
	if err != nil {
		if errors.Is(err, scen.ErrModelRejected) {
			w.Stat("models_rejected", 1)
			return
		}
		panic(err)
	}
	w.Stat("models_accepted", 1)
	w.Stat("shape_"+s.Shape, 1)

	// tuples that may travel as contextual tuples: accepted by the write validation
	var valid, invalid []int
	for i, t := range s.Tuples {
		if validation.ValidateTupleForWrite(full.TS, t.Proto()) == nil {
			valid = append(valid, i)
		} else {
			invalid = append(invalid, i)
		}
	}
	w.Stat("tuples_valid_for_write", len(valid))
	// which of them the weighted-graph engine's own validation of contextual tuples refuses
	var wgRejects []string
	wgRejectIdx := map[int]bool{}
	if mg, err := modelgraph.New(full.Model); err == nil {
		for _, i := range valid {
			t := s.Tuples[i]
			_, err := check.NewRequest(check.RequestParams{StoreID: full.StoreID, Model: mg,
				TupleKey: tuple.NewTupleKey(t.Obj, t.Rel, t.User), ContextualTuples: []*openfgav1.TupleKey{t.Proto()}, Context: scen.Struct(s.ReqCtx)})
			if err != nil {
				wgRejects = append(wgRejects, t.Key()+condSuffix(t))
				wgRejectIdx[i] = true
			}
		}
	}
	w.Stat("tuples_valid_for_write_refused_by_wg", len(wgRejects))
	w.Stat("tuples_only_storable", len(invalid))
	if len(valid) > 100 {
		valid = valid[:100] // contextual-tuple limit of the API
	}
	perm := append([]int{}, valid...)
	rec.Shuffle(r, perm)
	cuts := []int{0, r.Intn(len(perm) + 1), r.Intn(len(perm) + 1), len(perm)}
	sort.Ints(cuts)
	if len(pinnedPerm) == len(perm) && len(pinnedCuts) == levels && pinnedCuts[levels-1] == len(perm) {
		perm, cuts = append([]int{}, pinnedPerm...), append([]int{}, pinnedCuts...)
	}
	level := make([]map[int]bool, levels) // level j: indices of the valid tuples that are stored
	for j := 0; j < levels; j++ {
		level[j] = map[int]bool{}
		for _, i := range perm[:cuts[j]] {
			level[j][i] = true
		}
	}
	storedAt := func(j int) []scen.Tuple {
		var out []scen.Tuple
		for i, t := range s.Tuples {
			if level[j][i] {
				out = append(out, t)
			}
		}
		for _, i := range invalid {
			out = append(out, s.Tuples[i])
		}
		return out
	}
	// contextual tuples lifting level i to level j, in a random order
	ctxFor := func(i, j int) []scen.Tuple {
		var out []scen.Tuple
		for _, k := range perm[cuts[i]:cuts[j]] {
			out = append(out, s.Tuples[k])
		}
		return out
	}
	mkEnv := func(ts []scen.Tuple) *scen.Env {
		cp := *s
		cp.Tuples = ts
		e, err := scen.NewEnvOn(ctx, fm.ds, &cp)
		if err != nil {
			panic(err)
		}
		return e
	}
	twins := make([]*scen.Env, levels) // T_j: clean stores, never see contextual tuples
	mixed := make([]*scen.Env, levels) // S_i: asked with contextual tuples (i < levels-1)
	for j := 0; j < levels; j++ {
		if j == levels-1 {
			twins[j] = full
		} else {
			twins[j] = mkEnv(storedAt(j))
			mixed[j] = mkEnv(storedAt(j))
		}
		w.Stat(fmt.Sprintf("level%d_stored", j), cuts[j])
	}
	w.Stat("contextual_max", len(perm))

	// ---- queries
	subjects := s.SubjectsAnyIDs(r, 3)
	objects := s.Objects(subjects...)
	var cand []checkQ
	for _, o := range objects {
		ot, _ := scen.SplitObj(o)
		td := s.Type(ot)
		if td == nil {
			continue
		}
		for _, rd := range td.Rels {
			for _, u := range subjects {
				cand = append(cand, checkQ{o, rd.Name, u})
			}
		}
	}
	rec.Shuffle(r, cand)
	if len(cand) > 240 {
		cand = cand[:240]
	}
	plain := fm.srvs[0]
	var yes, no []checkQ
	for _, q := range cand {
		switch plain.check(ctx, target{env: full}, q, nil) {
		case "T":
			yes = append(yes, q)
		default:
			no = append(no, q)
		}
	}
	nq := 10
	if tier == "thorough" {
		nq = 16
	}
	var checks []checkQ
	checks = append(checks, yes[:min(len(yes), nq*2/3)]...)
	checks = append(checks, no[:min(len(no), nq-len(checks))]...)
	w.Stat("check_queries", len(checks))
	w.Stat("check_queries_allowed_at_full", min(len(yes), nq*2/3))

	var los []loQ
	var lus []luQ
	var exs []exQ
	seenLO, seenLU, seenEX := map[loQ]bool{}, map[luQ]bool{}, map[exQ]bool{}
	// ListObjects queries: relations defined through intersection / exclusion first (their candidates
	// are re-checked), one typed-wildcard user, then the queries of the sampled checks
	hasSetOp := func(typ, rel string) bool {
		rd := s.Rel(typ, rel)
		found := false
		if rd != nil {
			rd.RW.Walk(func(x *scen.Rewrite) {
				if x.Op == "inter" || x.Op == "diff" {
					found = true
				}
			})
		}
		return found
	}
	addLO := func(l loQ, limit int) {
		if !seenLO[l] && len(los) < limit {
			seenLO[l] = true
			los = append(los, l)
		}
	}
	nlo := 6
	all := append(append([]checkQ{}, checks...), cand...)
	for _, q := range all {
		if ot, _ := scen.SplitObj(q.Obj); hasSetOp(ot, q.Rel) && !strings.HasSuffix(q.User, ":*") && !strings.Contains(q.User, "#") {
			addLO(loQ{ot, q.Rel, q.User}, 2)
		}
	}
	for _, q := range all {
		if strings.HasSuffix(q.User, ":*") {
			ot, _ := scen.SplitObj(q.Obj)
			addLO(loQ{ot, q.Rel, q.User}, 3)
		}
	}
	for _, q := range all {
		ot, _ := scen.SplitObj(q.Obj)
		addLO(loQ{ot, q.Rel, q.User}, nlo)
		ut, _, urel := scen.SplitUser(q.User)
		if l := (luQ{q.Obj, q.Rel, ut, urel}); !seenLU[l] && len(lus) < 4 {
			seenLU[l] = true
			lus = append(lus, l)
		}
		if l := (exQ{q.Obj, q.Rel}); !seenEX[l] && len(exs) < 4 {
			seenEX[l] = true
			exs = append(exs, l)
		}
	}
	w.Stat("listobjects_queries", len(los))

	// ---- probes
	var probes []probe
	for _, sv := range fm.srvs {
		sv := sv
		for _, q := range checks {
			q := q
			probes = append(probes, probe{api: "check", srv: sv, label: fmt.Sprintf("Check(%s#%s@%s)", q.Obj, q.Rel, q.User),
				ask:   func(ctx context.Context, t target, ct []scen.Tuple) string { return sv.check(ctx, t, q, ct) },
				atoms: func(_, _ string) []checkQ { return []checkQ{q} }})
		}
		for _, q := range los {
			q := q
			probes = append(probes, probe{api: "listobjects", srv: sv, label: fmt.Sprintf("ListObjects(%s,%s,%s)", q.Type, q.Rel, q.User),
				ask: func(ctx context.Context, t target, ct []scen.Tuple) string { return sv.listObjects(ctx, t, q, ct) },
				atoms: func(got, want string) []checkQ {
					var d []string
					if isErr(got) || isErr(want) {
						for _, o := range objects {
							if ot, _ := scen.SplitObj(o); ot == q.Type {
								d = append(d, o)
							}
						}
					} else {
						d = symDiff(splitList(got), splitList(want))
					}
					var out []checkQ
					for _, o := range d {
						out = append(out, checkQ{o, q.Rel, q.User})
					}
					return out
				}})
		}
	}
	for _, q := range lus {
		q := q
		probes = append(probes, probe{api: "listusers", srv: plain, lu: &q, label: fmt.Sprintf("ListUsers(%s#%s,%s#%s)", q.Obj, q.Rel, q.FType, q.FRel),
			ask: func(ctx context.Context, t target, ct []scen.Tuple) string { return plain.listUsers(ctx, t, q, ct) },
			atoms: func(got, want string) []checkQ {
				var d []string
				if isErr(got) || isErr(want) {
					d = subjects
				} else {
					d = symDiff(splitList(got), splitList(want))
				}
				var out []checkQ
				for _, u := range d {
					out = append(out, checkQ{q.Obj, q.Rel, u})
				}
				return out
			}})
	}
	for _, q := range exs {
		q := q
		probes = append(probes, probe{api: "expand", srv: plain, label: fmt.Sprintf("Expand(%s#%s)", q.Obj, q.Rel),
			ask:   func(ctx context.Context, t target, ct []scen.Tuple) string { return plain.expand(ctx, t, q, ct) },
			atoms: func(_, _ string) []checkQ { return nil }})
	}

	// a spurious "cancelled" / deadline answer (no client cancelled anything) is retried and counted;
	// a call that does not return at all (observed: the ListObjects pipeline blocked for ever in
	// Pipeline.Close, waiting with context.Background) is abandoned after hangAfter and reported
	hung := map[string]bool{}
	for pi := range probes {
		inner := probes[pi].ask
		key := probes[pi].api + "/" + probes[pi].srv.name
		label := probes[pi].label
		probes[pi].ask = func(ctx context.Context, t target, ct []scen.Tuple) string {
			if hung[key] {
				return "Ehang"
			}
			call := func() string {
				ch := make(chan string, 1)
				go func() { ch <- inner(ctx, t, ct) }()
				select {
				case out := <-ch:
					return out
				case <-time.After(hangAfter):
					return "Ehang"
				}
			}
			out := call()
			for k := 0; k < 3 && isTransient(out); k++ {
				w.Stat("transient_"+out+"_retried", 1)
				out = call()
			}
			if out == "Ehang" {
				hung[key] = true
				w.Stat("hung_"+key, 1)
				var cts []string
				for _, x := range ct {
					cts = append(cts, x.Key()+condSuffix(x))
				}
				w.Known("request_never_returns", fmt.Sprintf("%s on server %s did not return within %s (store %s, contextual tuples %v)", label, key, hangAfter, t.env.StoreID, cts),
					map[string]any{"kind": "api", "seed": seed, "scenario": s, "text": s.String()})
			}
			return out
		}
	}

	// ---- reference answers on the clean twins
	ref := make([][]string, len(probes))
	for pi, p := range probes {
		ref[pi] = make([]string, levels)
		for j := 0; j < levels; j++ {
			ref[pi][j] = p.ask(ctx, target{env: twins[j]}, nil)
			w.Stat("requests_reference", 1)
		}
		w.Stat("ref_"+p.api+"_"+outcomeClass(ref[pi][levels-1]), 1)
	}

	var mms []mismatch
	judge := func(p probe, pi, i, j int, phase, got string) {
		want := ref[pi][j]
		w.Stat("comparisons_"+p.api, 1)
		if got == "Ehang" || want == "Ehang" {
			w.Stat("comparisons_skipped_request_hung", 1)
			return
		}
		if isErr(got) && isErr(want) {
			w.Stat("comparisons_skipped_both_errors", 1)
			return
		}
		if got == want {
			return
		}
		ct := ctxFor(i, j)
		// look again without the caches, twice on each side
		var gf, wf []string
		for k := 0; k < 2; k++ {
			gf = append(gf, p.ask(ctx, target{env: mixed[i], hc: true}, ct))
			wf = append(wf, p.ask(ctx, target{env: twins[j], hc: true}, nil))
		}
		kind := "semantic"
		switch {
		case !sameOutcome(gf[0], gf[1]) || !sameOutcome(wf[0], wf[1]):
			kind = "unstable"
		case sameOutcome(gf[0], wf[0]):
			kind = "cached"
		}
		if kind == "unstable" {
			for _, g := range append([]string{got}, gf...) {
				for _, x := range append([]string{want}, wf...) {
					if sameOutcome(g, x) {
						w.Stat("unstable_outcomes_overlapping_ignored", 1)
						return
					}
				}
			}
		}
		var cts []string
		for _, t := range ct {
			cts = append(cts, t.Key()+condSuffix(t))
		}
		mms = append(mms, mismatch{API: p.api, Server: p.srv.name, Request: p.label, Phase: phase, Store: i, Level: j,
			Got: got, Want: want, GotFresh: gf, WantFresh: wf, Kind: kind, Contextual: cts, atoms: p.atoms(got, want), lu: p.lu,
			ctxIdx: append([]int{}, perm[cuts[i]:cuts[j]]...)})
	}

	// ---- interleaved: every probe, on every mixed store, with every lift (random order)
	type pass struct{ i, j int }
	for pi, p := range probes {
		var ps []pass
		for i := 0; i < levels-1; i++ {
			for j := i; j < levels; j++ {
				ps = append(ps, pass{i, j})
			}
		}
		rec.Shuffle(r, ps)
		for _, x := range ps {
			got := p.ask(ctx, target{env: mixed[x.i]}, ctxFor(x.i, x.j))
			w.Stat("requests_mixed", 1)
			if x.j > x.i {
				w.Stat("requests_with_contextual", 1)
			}
			judge(p, pi, x.i, x.j, "interleaved", got)
		}
	}

	// ---- BatchCheck: one batch per mixed store, every item with its own lift
	for _, sv := range fm.srvs {
		if sv.name == "opt" {
			continue
		}
		for i := 0; i < levels-1; i++ {
			var items []batchItem
			var js, pis []int
			for pi, p := range probes {
				if p.api != "check" || p.srv != sv {
					continue
				}
				q := p.atoms("", "")[0]
				for _, j := range []int{i, r.Range(i, levels-1), levels - 1} {
					items = append(items, batchItem{q: q, ct: ctxFor(i, j)})
					js = append(js, j)
					pis = append(pis, pi)
				}
			}
			if len(items) == 0 {
				continue
			}
			outs := sv.batch(ctx, target{env: mixed[i]}, items)
			for k, got := range outs {
				p := probes[pis[k]]
				w.Stat("requests_batch_items", 1)
				want := ref[pis[k]][js[k]]
				if sameOutcome(got, want) || want == "Ehang" {
					continue
				}
				bp := p
				bp.api = "batchcheck"
				judge(bp, pis[k], i, js[k], "batch", got)
			}
		}
	}

	// ---- final pass without contextual tuples: nothing may have stuck
	for pi, p := range probes {
		for i := 0; i < levels-1; i++ {
			got := p.ask(ctx, target{env: mixed[i]}, nil)
			w.Stat("requests_final_none", 1)
			judge(p, pi, i, i, "final-none", got)
		}
	}

	// ---- record: scenario for the oracle + the mismatches with the Check atoms they implicate
	in := scen.NewIntern()
	model := in.Model(s)
	conds := in.Conds(s)
	var tvs []rec.V
	for _, t := range s.Tuples {
		tvs = append(tvs, in.Tuple(t, full.CEval(ctx, t)))
	}
	atomsV := in.Atoms(s, objects)
	var mvs []rec.V
	for mi, m := range mms {
		w.Stat("mismatch_"+m.API+"_"+m.Server+"_"+m.Kind, 1)
		var avs []rec.V
		for _, a := range m.atoms {
			var pxs []rec.V
			for _, p := range full.PathX(a.User) {
				pxs = append(pxs, rec.L(rec.I(in.T(p[0])), rec.I(in.R(p[1]))))
			}
			ot, oi := in.Obj(a.Obj)
			avs = append(avs, rec.L(in.Subject(a.User), rec.L(pxs...), ot, oi, rec.I(in.R(a.Rel))))
		}
		api := map[string]int{"check": 0, "batchcheck": 1, "listobjects": 2, "listusers": 3, "expand": 4}[m.API]
		eng := map[string]int{"plain": 0, "opt": 1, "wg": 2}[m.Server]
		kind := map[string]int{"semantic": 0, "cached": 1, "unstable": 2}[m.Kind]
		mvs = append(mvs, rec.L(rec.I(mi), rec.I(api), rec.I(eng), rec.I(kind), rec.I(outcomeInt(m.Got)), rec.I(outcomeInt(m.Want)),
			rec.LI(m.ctxIdx), rec.L(avs...), luRecord(in, full, m)))
	}
	d := map[string]any{"kind": "api", "seed": seed, "scenario": s, "text": s.String(), "cuts": cuts, "perm": perm}
	if len(wgRejects) > 0 {
		d["refused_by_weighted_graph_validation"] = wgRejects
	}
	if len(mms) > 0 {
		d["mismatches"] = mms
	} else if len(perm) == 0 {
		d["nt"] = false // nothing can be contextual: all levels coincide
	}
	w.Case(d, rec.I(2), model, conds, rec.L(tvs...), atomsV, rec.I(25), rec.L(mvs...))

	for _, e := range append(append([]*scen.Env{}, twins[:levels-1]...), mixed[:levels-1]...) {
		_ = e // stores stay in the shared memory datastore until the farm is closed
	}
}

func condSuffix(t scen.Tuple) string {
	if t.Cond == "" {
		return ""
	}
	return fmt.Sprintf(" with %s %v", t.Cond, t.Ctx)
}

func outcomeClass(s string) string {
	switch {
	case s == "T":
		return "allowed"
	case s == "F":
		return "denied"
	case isErr(s):
		return "error"
	case s == "[]":
		return "empty"
	default:
		return "nonempty"
	}
}

// outcome classes as in harness/lib/scen (OutAllowed ...): only meaningful for Check-like outcomes
func outcomeInt(s string) int {
	switch {
	case s == "T":
		return scen.OutAllowed
	case s == "F":
		return scen.OutDenied
	case s == "E2000":
		return scen.OutErrCond
	case s == "E2002":
		return scen.OutErrDepth
	case s == "Etimeout":
		return scen.OutTimeout
	case isErr(s):
		return scen.OutErrOther
	default:
		return 9 // a list / a tree
	}
}

// the ListUsers request of a mismatch and both answers, for the ListUsers algorithm model
// (Query/ListUsers.v): ( ftype frel edges ot oi rel got want ), an answer = ( 0 subject ... ) | ( 1 )
// for an error; edges replicates listusers.doesHavePossibleEdges (0 = no edge: the answer is empty
// without a traversal).
func luRecord(in *scen.Intern, env *scen.Env, m mismatch) rec.V {
	if m.lu == nil {
		return rec.L()
	}
	q := *m.lu
	ot, _ := scen.SplitObj(q.Obj)
	edges := 1
	if !(ot == q.FType && q.Rel == q.FRel) {
		g := graph.New(env.TS)
		es, err := g.GetPrunedRelationshipEdges(typesystem.DirectRelationReference(ot, q.Rel), typesystem.DirectRelationReference(q.FType, q.FRel))
		switch {
		case err != nil:
			edges = 2
		case len(es) == 0:
			edges = 0
		}
	}
	ans := func(a string) rec.V {
		if isErr(a) {
			return rec.L(rec.I(1))
		}
		vs := []rec.V{rec.I(0)}
		for _, u := range splitList(a) {
			vs = append(vs, in.Subject(u))
		}
		return rec.L(vs...)
	}
	frel := 0
	if q.FRel != "" {
		frel = in.R(q.FRel)
	}
	a, b := in.Obj(q.Obj)
	return rec.L(rec.I(in.T(q.FType)), rec.I(frel), rec.I(edges), a, b, rec.I(in.R(q.Rel)), ans(m.Got), ans(m.Want))
}
