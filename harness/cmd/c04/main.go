//go:build verif

// Driver for C04 (contextual tuples behave exactly like stored tuples).
//
// Three kinds of cases:
//
//	kind 1 "reader": the real storagewrappers.CombinedTupleReader over a real memory datastore,
//	   on enumerated / random filters of all five read operations; per operation the record holds
//	   the combined result, the result of the wrapped datastore alone (the stored part) and the
//	   result of a second datastore that holds stored ∪ contextual.  The oracle compares the first
//	   with the Coq model (DIFF) and with the third (PROP, or KNOWN <refuted shape>).
//	kind 2 "api": generated scenarios (harness/lib/scen) on real servers with all caches on; the
//	   valid tuples are split along a random chain stored_0 ⊂ … ⊂ stored_K; every store S_i is asked
//	   with the contextual tuples that lift it to level j ≥ i and must answer like the clean twin
//	   T_j that holds level j (Check default / optimised / weighted-graph engine, BatchCheck,
//	   ListObjects classic / optimised / pipeline, ListUsers, Expand), interleaved, then once more
//	   without contextual tuples.  Mismatches are classified by the oracle (Check/V1.v triggers).
//	kind 3 "keys": storage.InvariantCacheKey (permutation invariance, sensitivity to every field of
//	   a contextual tuple) and the weighted-graph engine's per-request indexes (check.NewRequest)
//	   against the Coq model.
package main

import (
	"bufio"
	"context"
	"encoding/json"
	"os"

	"github.com/openfga/openfga/internal/verifharness/lib/rec"
	"github.com/openfga/openfga/internal/verifharness/lib/scen"
)

type replayDesc struct {
	Kind     string         `json:"kind"`
	Seed     uint64         `json:"seed"`
	Scenario *scen.Scenario `json:"scenario,omitempty"`
	// optional (corpus): the order in which the valid tuples enter the store and the level boundaries
	Perm []int `json:"perm,omitempty"`
	Cuts []int `json:"cuts,omitempty"`
}

var pinnedPerm, pinnedCuts []int

func main() {
	o := rec.ParseFlags()
	w := rec.NewWriter(o.Out)
	defer w.Close()
	ctx := context.Background()
	farm := newFarm()
	defer farm.close(w)

	if o.Replay != "" {
		f, err := os.Open(o.Replay)
		if err != nil {
			panic(err)
		}
		defer f.Close()
		sc := bufio.NewScanner(f)
		sc.Buffer(make([]byte, 1<<20), 1<<26)
		for sc.Scan() {
			var d replayDesc
			if json.Unmarshal(sc.Bytes(), &d) != nil {
				continue
			}
			switch d.Kind {
			case "reader":
				runReaderCase(ctx, w, d.Seed)
			case "keys":
				runKeysCase(ctx, w, d.Seed)
			case "api":
				if d.Scenario != nil {
					pinnedPerm, pinnedCuts = d.Perm, d.Cuts
					runAPICase(ctx, w, farm, d.Scenario, d.Seed, o.Tier)
					pinnedPerm, pinnedCuts = nil, nil
				}
			case "shape": // a read shape reported by the counting datastore: measure again on fresh scenarios
				r := rec.NewRand(o.Seed)
				for i := 0; i < 60; i++ {
					rr := r.Fork()
					runAPICase(ctx, w, farm, scen.Generate(rr, scen.DefaultOpts()).RenameIDs(rr), rr.Uint64(), o.Tier)
				}
			}
		}
		return
	}

	r := rec.NewRand(o.Seed)
	// n counts api scenarios; reader and key cases are cheap and scale with it
	for i := 0; i < o.N; i++ {
		rr := r.Fork()
		s := scen.Generate(rr, scen.DefaultOpts())
		if rr.Chance(2, 3) { // ids from the whole accepted range (some sort before the wildcard "*")
			s = s.RenameIDs(rr)
			w.Stat("scenarios_with_arbitrary_ids", 1)
		}
		runAPICase(ctx, w, farm, s, rr.Uint64(), o.Tier)
		for k := 0; k < 6; k++ {
			runReaderCase(ctx, w, r.Uint64())
		}
		runKeysCase(ctx, w, r.Uint64())
	}
}
