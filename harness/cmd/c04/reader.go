//go:build verif

package main

import (
	"context"
	"encoding/json"
	"errors"
	"sort"

	"github.com/oklog/ulid/v2"
	openfgav1 "github.com/openfga/api/proto/openfga/v1"
	"google.golang.org/protobuf/types/known/structpb"

	"github.com/openfga/openfga/internal/verifharness/lib/rec"
	"github.com/openfga/openfga/pkg/storage"
	"github.com/openfga/openfga/pkg/storage/memory"
	"github.com/openfga/openfga/pkg/storage/storagewrappers"
	"github.com/openfga/openfga/pkg/tuple"
)

// ---------------------------------------------------------------------------------------------
// encoding of tuples / filters for the oracle (Store/CombinedReader.v)

type enc struct {
	syms    map[string]int // types, relations, condition names: "" = 0
	objRank map[string]int
	usrRank map[string]int
	ctxIDs  map[string]int
}

func newEnc(objects, users []string) *enc {
	e := &enc{syms: map[string]int{}, objRank: map[string]int{}, usrRank: map[string]int{}, ctxIDs: map[string]int{}}
	os := uniqSorted(objects)
	for i, o := range os {
		e.objRank[o] = i + 1
	}
	us := uniqSorted(users)
	for i, u := range us {
		e.usrRank[u] = i + 1
	}
	return e
}

func uniqKeepOrder(xs []string) []string {
	seen := map[string]bool{}
	var out []string
	for _, x := range xs {
		if !seen[x] {
			seen[x] = true
			out = append(out, x)
		}
	}
	return out
}

func uniqSorted(xs []string) []string {
	m := map[string]bool{}
	for _, x := range xs {
		m[x] = true
	}
	out := make([]string, 0, len(m))
	for x := range m {
		out = append(out, x)
	}
	sort.Strings(out) // byte-wise, as strings.Compare
	return out
}

func (e *enc) sym(s string) int {
	if s == "" {
		return 0
	}
	if v, ok := e.syms[s]; ok {
		return v
	}
	v := len(e.syms) + 1
	e.syms[s] = v
	return v
}

func (e *enc) obj(o string) int {
	v, ok := e.objRank[o]
	if !ok {
		panic("object without rank: " + o)
	}
	return v
}

func (e *enc) user(u string) rec.V {
	v, ok := e.usrRank[u]
	if !ok {
		panic("user without rank: " + u)
	}
	w := 0
	if tuple.IsTypedWildcard(u) {
		w = 1
	}
	return rec.L(rec.I(v), rec.I(e.sym(tuple.GetType(u))), rec.I(w), rec.I(e.sym(tuple.GetRelation(u))))
}

func (e *enc) ctxID(c *structpb.Struct) int {
	if c == nil || len(c.GetFields()) == 0 {
		return 0
	}
	b, _ := json.Marshal(c.AsMap())
	k := string(b)
	if v, ok := e.ctxIDs[k]; ok {
		return v
	}
	v := len(e.ctxIDs) + 1
	e.ctxIDs[k] = v
	return v
}

func (e *enc) tupleKey(tk *openfgav1.TupleKey) rec.V {
	cond, cx := 0, 0
	if tk.GetCondition() != nil {
		cond = e.sym(tk.GetCondition().GetName())
		cx = e.ctxID(tk.GetCondition().GetContext())
	}
	return rec.L(rec.I(e.obj(tk.GetObject())), rec.I(e.sym(tuple.GetType(tk.GetObject()))), rec.I(e.sym(tk.GetRelation())),
		e.user(tk.GetUser()), rec.I(cond), rec.I(cx))
}

func (e *enc) tupleKeys(tks []*openfgav1.TupleKey) rec.V {
	vs := make([]rec.V, len(tks))
	for i, tk := range tks {
		vs[i] = e.tupleKey(tk)
	}
	return rec.L(vs...)
}

func (e *enc) conds(cs []string) rec.V {
	vs := make([]rec.V, len(cs))
	for i, c := range cs {
		vs[i] = rec.I(e.sym(c))
	}
	return rec.L(vs...)
}

// object filter: "" | "type:" | "type:id"
func (e *enc) ofilter(o string) rec.V {
	switch {
	case o == "":
		return rec.L(rec.I(0))
	case o[len(o)-1] == ':':
		return rec.L(rec.I(1), rec.I(e.sym(o[:len(o)-1])))
	default:
		return rec.L(rec.I(2), rec.I(e.obj(o)))
	}
}

func (e *enc) ufilter(u string) rec.V {
	switch {
	case u == "":
		return rec.L(rec.I(0))
	case u[len(u)-1] == ':':
		return rec.L(rec.I(1), rec.I(e.sym(u[:len(u)-1])))
	default:
		return rec.L(rec.I(2), e.user(u))
	}
}

// ---------------------------------------------------------------------------------------------
// observed results

type obsResult struct {
	kind   int // 0 list, 1 none (ErrNotFound), 2 some, 3 error / not applicable
	tuples []*openfgav1.TupleKey
}

func (e *enc) result(r obsResult) rec.V {
	switch r.kind {
	case 0:
		return rec.L(rec.I(0), e.tupleKeys(r.tuples))
	case 1:
		return rec.L(rec.I(1))
	case 2:
		return rec.L(rec.I(2), e.tupleKey(r.tuples[0]))
	default:
		return rec.L(rec.I(3))
	}
}

func drain(ctx context.Context, it storage.TupleIterator, err error) obsResult {
	if err != nil {
		return obsResult{kind: 3}
	}
	defer it.Stop()
	var out []*openfgav1.TupleKey
	for {
		t, err := it.Next(ctx)
		if err != nil {
			if errors.Is(err, storage.ErrIteratorDone) {
				return obsResult{kind: 0, tuples: out}
			}
			return obsResult{kind: 3}
		}
		out = append(out, t.GetKey())
	}
}

// ---------------------------------------------------------------------------------------------
// operations

type readerOp struct {
	Op       string   // read | page | rut | usersets | rswu
	Object   string   // Read/ReadPage/RUT/Usersets: object filter; RSWU: object type
	Relation string
	User     string   // Read/ReadPage/RUT
	Conds    []string // nil = absent
	Restr    []string // usersets: "type#rel" | "type:*" | "type" | "type#" (relation oneof set, empty)
	Users    []string // rswu user filter
	OIDs     []string // rswu ObjectIDs (nil = absent)
	HasOIDs  bool
	Sorted   bool
}

func restrProto(r string) *openfgav1.RelationReference {
	for i := 0; i < len(r); i++ {
		if r[i] == '#' {
			return &openfgav1.RelationReference{Type: r[:i], RelationOrWildcard: &openfgav1.RelationReference_Relation{Relation: r[i+1:]}}
		}
		if r[i] == ':' {
			return &openfgav1.RelationReference{Type: r[:i], RelationOrWildcard: &openfgav1.RelationReference_Wildcard{Wildcard: &openfgav1.Wildcard{}}}
		}
	}
	return &openfgav1.RelationReference{Type: r}
}

func (e *enc) restr(r string) rec.V {
	for i := 0; i < len(r); i++ {
		if r[i] == '#' {
			return rec.L(rec.I(0), rec.I(e.sym(r[:i])), rec.I(e.sym(r[i+1:])))
		}
		if r[i] == ':' {
			return rec.L(rec.I(1), rec.I(e.sym(r[:i])))
		}
	}
	return rec.L(rec.I(2), rec.I(e.sym(r)))
}

func userFilterProto(us []string) []*openfgav1.ObjectRelation {
	var out []*openfgav1.ObjectRelation
	for _, u := range us {
		obj, rel := tuple.SplitObjectRelation(u)
		out = append(out, &openfgav1.ObjectRelation{Object: obj, Relation: rel})
	}
	return out
}

func runOp(ctx context.Context, rd storage.RelationshipTupleReader, store string, op readerOp) obsResult {
	switch op.Op {
	case "read":
		it, err := rd.Read(ctx, store, storage.ReadFilter{Object: op.Object, Relation: op.Relation, User: op.User, Conditions: op.Conds}, storage.ReadOptions{})
		return drain(ctx, it, err)
	case "page":
		ts, _, err := rd.ReadPage(ctx, store, storage.ReadFilter{Object: op.Object, Relation: op.Relation, User: op.User, Conditions: op.Conds},
			storage.ReadPageOptions{Pagination: storage.NewPaginationOptions(100, "")})
		if err != nil {
			return obsResult{kind: 3}
		}
		var out []*openfgav1.TupleKey
		for _, t := range ts {
			out = append(out, t.GetKey())
		}
		return obsResult{kind: 0, tuples: out}
	case "rut":
		t, err := rd.ReadUserTuple(ctx, store, storage.ReadUserTupleFilter{Object: op.Object, Relation: op.Relation, User: op.User, Conditions: op.Conds}, storage.ReadUserTupleOptions{})
		if err != nil {
			if errors.Is(err, storage.ErrNotFound) {
				return obsResult{kind: 1}
			}
			return obsResult{kind: 3}
		}
		return obsResult{kind: 2, tuples: []*openfgav1.TupleKey{t.GetKey()}}
	case "usersets":
		var rs []*openfgav1.RelationReference
		for _, r := range op.Restr {
			rs = append(rs, restrProto(r))
		}
		it, err := rd.ReadUsersetTuples(ctx, store, storage.ReadUsersetTuplesFilter{Object: op.Object, Relation: op.Relation, AllowedUserTypeRestrictions: rs, Conditions: op.Conds}, storage.ReadUsersetTuplesOptions{})
		return drain(ctx, it, err)
	default:
		f := storage.ReadStartingWithUserFilter{ObjectType: op.Object, Relation: op.Relation, UserFilter: userFilterProto(op.Users), Conditions: op.Conds}
		if op.HasOIDs {
			f.ObjectIDs = storage.NewSortedSet(op.OIDs...)
		}
		it, err := rd.ReadStartingWithUser(ctx, store, f, storage.ReadStartingWithUserOptions{WithResultsSortedAscending: op.Sorted})
		return drain(ctx, it, err)
	}
}

func (e *enc) op(op readerOp) rec.V {
	switch op.Op {
	case "read", "page":
		k := 1
		if op.Op == "page" {
			k = 2
		}
		return rec.L(rec.I(k), e.ofilter(op.Object), rec.I(e.sym(op.Relation)), e.ufilter(op.User), e.conds(op.Conds))
	case "rut":
		return rec.L(rec.I(3), rec.I(e.obj(op.Object)), rec.I(e.sym(op.Relation)), e.user(op.User), e.conds(op.Conds))
	case "usersets":
		rs := make([]rec.V, len(op.Restr))
		for i, r := range op.Restr {
			rs[i] = e.restr(r)
		}
		return rec.L(rec.I(4), e.ofilter(op.Object), rec.I(e.sym(op.Relation)), rec.L(rs...), e.conds(op.Conds))
	default:
		us := make([]rec.V, len(op.Users))
		for i, u := range op.Users {
			us[i] = e.user(u)
		}
		oids := rec.L(rec.I(0))
		if op.HasOIDs {
			vs := []rec.V{rec.I(1)}
			for _, id := range op.OIDs {
				vs = append(vs, rec.I(e.obj(op.Object+":"+id)))
			}
			oids = rec.L(vs...)
		}
		return rec.L(rec.I(5), rec.I(e.sym(op.Object)), rec.I(e.sym(op.Relation)), rec.L(us...), oids, e.conds(op.Conds), rec.Bool(op.Sorted))
	}
}

// ---------------------------------------------------------------------------------------------
// generation

var (
	rdObjects = []string{"doc:1", "doc:2", "doc:10", "doc:!9", "doc:~z", "folder:1", "group:1", "group:2"}
	rdRels    = []string{"viewer", "editor", "parent", "member"}
	rdUsers   = []string{"user:a", "user:b", "user:*", "user:!bob", "user:(y", "user:~z", "group:1#member", "group:2#member", "group:1", "folder:1", "doc:1#viewer", "group:*"}
	rdConds   = []string{"", "", "c1", "c2"}
	rdIDs     = map[string][]string{"doc": {"1", "2", "10", "7", "!9", "~z"}, "folder": {"1", "2"}, "group": {"1", "2"}}
)

func genTupleKey(r *rec.Rand) *openfgav1.TupleKey {
	c := rec.Pick(r, rdConds)
	var cx *structpb.Struct
	if c != "" {
		switch r.Intn(3) {
		case 0:
			cx, _ = structpb.NewStruct(map[string]any{"x": 1})
		case 1:
			cx, _ = structpb.NewStruct(map[string]any{"x": 2})
		}
	}
	return tuple.NewTupleKeyWithCondition(rec.Pick(r, rdObjects), rec.Pick(r, rdRels), rec.Pick(r, rdUsers), c, cx)
}

func keyOf(tk *openfgav1.TupleKey) string {
	return tk.GetObject() + "#" + tk.GetRelation() + "@" + tk.GetUser()
}

func pickConds(r *rec.Rand, engine bool) []string {
	if engine {
		return nil
	}
	switch r.Intn(5) {
	case 0:
		return []string{""}
	case 1:
		return []string{"c1"}
	case 2:
		return []string{"", "c1"}
	case 3:
		return []string{}
	default:
		return nil
	}
}

func genOps(r *rec.Rand, stored, ctxT []*openfgav1.TupleKey) []readerOp {
	all := append(append([]*openfgav1.TupleKey{}, stored...), ctxT...)
	anyT := func() *openfgav1.TupleKey {
		if len(all) == 0 || r.Chance(1, 5) {
			return genTupleKey(r)
		}
		return rec.Pick(r, all)
	}
	var ops []readerOp
	n := 14
	for i := 0; i < n; i++ {
		t := anyT()
		engine := r.Chance(3, 5) // the shapes the engines issue
		switch r.Intn(6) {
		case 0: // Read
			op := readerOp{Op: "read", Object: t.GetObject(), Relation: t.GetRelation(), Conds: pickConds(r, engine)}
			if !engine {
				switch r.Intn(5) {
				case 0:
					op.Object = tuple.GetType(t.GetObject()) + ":"
				case 1:
					op.Object = ""
				case 2:
					op.Relation = ""
				case 3:
					op.User = t.GetUser()
				default:
					op.User = tuple.GetType(t.GetUser()) + ":"
				}
			}
			ops = append(ops, op)
		case 1: // ReadPage
			ops = append(ops, readerOp{Op: "page", Object: t.GetObject(), Relation: t.GetRelation(), Conds: pickConds(r, engine)})
		case 2: // ReadUserTuple
			op := readerOp{Op: "rut", Object: t.GetObject(), Relation: t.GetRelation(), User: t.GetUser(), Conds: pickConds(r, engine)}
			ops = append(ops, op)
		case 3: // ReadUsersetTuples
			op := readerOp{Op: "usersets", Object: t.GetObject(), Relation: t.GetRelation(), Conds: pickConds(r, engine)}
			pool := []string{"group#member", "user:*", "group:*", "doc#viewer", "group#editor"}
			if !engine {
				pool = append(pool, "group", "user", "user#", "group#")
			}
			k := r.Range(1, 3)
			if !engine && r.Chance(1, 4) {
				k = 0
			}
			for j := 0; j < k; j++ {
				op.Restr = append(op.Restr, rec.Pick(r, pool))
			}
			if engine || !r.Chance(1, 6) {
				op.Restr = uniqKeepOrder(op.Restr)
			}
			if !engine && r.Chance(1, 6) {
				op.Object = tuple.GetType(t.GetObject()) + ":"
			}
			ops = append(ops, op)
		default: // ReadStartingWithUser (two slots: unsorted and sorted)
			ot := tuple.GetType(t.GetObject())
			op := readerOp{Op: "rswu", Object: ot, Relation: t.GetRelation(), Users: []string{t.GetUser()}, Conds: pickConds(r, engine), Sorted: r.Bool()}
			if r.Chance(1, 2) {
				ut := tuple.GetType(t.GetUser())
				op.Users = append(op.Users, ut+":*")
			}
			if r.Chance(1, 4) {
				op.Users = append(op.Users, rec.Pick(r, rdUsers))
			}
			if !r.Chance(1, 12) { // a repeated user makes the memory datastore return a row twice
				op.Users = uniqKeepOrder(op.Users)
			}
			if !engine {
				switch r.Intn(4) {
				case 0:
					op.Users = nil
				case 1:
					op.HasOIDs = true
					for _, id := range rdIDs[ot] {
						if r.Bool() {
							op.OIDs = append(op.OIDs, id)
						}
					}
				case 2:
					op.Relation = ""
				}
			}
			ops = append(ops, op)
		}
	}
	return ops
}

func runReaderCase(ctx context.Context, w *rec.Writer, seed uint64) {
	r := rec.NewRand(seed)
	ns := r.Range(0, 14)
	nc := r.Range(0, 10)
	if r.Chance(1, 8) {
		nc = r.Range(13, 22) // beyond the insertion-sort range of slices.SortFunc
	}
	overlap := nc <= 12 && r.Chance(1, 4) // contextual tuples may repeat keys (of stored tuples, of each other)
	seen := map[string]bool{}
	var stored, ctxT []*openfgav1.TupleKey
	for len(stored) < ns {
		t := genTupleKey(r)
		if seen[keyOf(t)] {
			if r.Chance(1, 10) {
				break
			}
			continue
		}
		seen[keyOf(t)] = true
		stored = append(stored, t)
	}
	unique := true
	for tries := 0; len(ctxT) < nc && tries < 400; tries++ {
		t := genTupleKey(r)
		if overlap && len(stored) > 0 && r.Chance(1, 3) { // the key of a stored tuple, perhaps with another condition
			k := rec.Pick(r, stored)
			t.Object, t.Relation, t.User = k.GetObject(), k.GetRelation(), k.GetUser()
		}
		if seen[keyOf(t)] {
			if !overlap {
				continue
			}
			unique = false
		}
		seen[keyOf(t)] = true
		ctxT = append(ctxT, t)
	}

	ds := memory.New()
	defer ds.Close()
	storeA, storeU := ulid.Make().String(), ulid.Make().String()
	write := func(store string, ts []*openfgav1.TupleKey) {
		for i := 0; i < len(ts); i += 20 {
			j := min(i+20, len(ts))
			if err := ds.Write(ctx, store, nil, ts[i:j]); err != nil {
				panic(err)
			}
		}
	}
	write(storeA, stored)
	if unique {
		write(storeU, stored)
		write(storeU, ctxT)
	}
	combined := storagewrappers.NewCombinedTupleReader(ds, ctxT)

	ops := genOps(r, stored, ctxT)
	// ranks over every string of the case
	var objs, users []string
	for _, t := range append(append([]*openfgav1.TupleKey{}, stored...), ctxT...) {
		objs = append(objs, t.GetObject())
		users = append(users, t.GetUser())
	}
	for _, op := range ops {
		if op.Op == "rswu" {
			for _, id := range op.OIDs {
				objs = append(objs, op.Object+":"+id)
			}
			users = append(users, op.Users...)
		} else {
			if op.Object != "" && op.Object[len(op.Object)-1] != ':' {
				objs = append(objs, op.Object)
			}
			if op.User != "" && op.User[len(op.User)-1] != ':' {
				users = append(users, op.User)
			}
		}
	}
	e := newEnc(objs, users)
	var ovs []rec.V
	for _, op := range ops {
		got := runOp(ctx, combined, storeA, op)
		under := runOp(ctx, ds, storeA, op)
		union := obsResult{kind: 3}
		if unique {
			union = runOp(ctx, ds, storeU, op)
		}
		ovs = append(ovs, rec.L(e.op(op), e.result(got), e.result(under), e.result(union)))
		w.Stat("reader_op_"+op.Op, 1)
	}
	w.Stat("reader_cases", 1)
	if !unique {
		w.Stat("reader_cases_overlapping_keys", 1)
	}
	if nc > 12 {
		w.Stat("reader_cases_ctx_gt12", 1)
	}
	w.Case(replayDesc{Kind: "reader", Seed: seed}, rec.I(1), e.tupleKeys(stored), e.tupleKeys(ctxT), rec.Bool(unique), rec.L(ovs...))
}
