//go:build verif

package main

import (
	"context"
	"fmt"
	"strings"

	"github.com/oklog/ulid/v2"
	openfgav1 "github.com/openfga/api/proto/openfga/v1"
	"google.golang.org/protobuf/proto"
	"google.golang.org/protobuf/types/known/structpb"

	"github.com/openfga/openfga/internal/check"
	"github.com/openfga/openfga/internal/modelgraph"
	"github.com/openfga/openfga/internal/verifharness/lib/rec"
	"github.com/openfga/openfga/internal/verifharness/lib/scen"
	"github.com/openfga/openfga/pkg/storage"
	"github.com/openfga/openfga/pkg/tuple"
)

// a fixed model whose restrictions admit the same key with and without condition (so that
// de-duplication inside the indexes is reachable through the validation of check.NewRequest)
func keysScenario() *scen.Scenario {
	return &scen.Scenario{
		Conds: []string{"c1", "c2"},
		Types: []scen.TypeDef{
			{Name: "user"},
			{Name: "group", Rels: []scen.RelDef{{Name: "member", RW: scen.This(), Restr: []scen.Restr{
				scen.RObj("user"), scen.RObj("user").With("c1"), scen.RWild("user"), scen.RSet("group", "member")}}}},
			{Name: "doc", Rels: []scen.RelDef{
				{Name: "viewer", RW: scen.This(), Restr: []scen.Restr{
					scen.RObj("user"), scen.RObj("user").With("c1"), scen.RObj("user").With("c2"), scen.RWild("user"), scen.RWild("user").With("c1"),
					scen.RSet("group", "member"), scen.RSet("group", "member").With("c1"), scen.RObj("group")}},
				{Name: "editor", RW: scen.This(), Restr: []scen.Restr{scen.RObj("user"), scen.RSet("group", "member")}},
			}},
		},
	}
}

var keysModel *openfgav1.AuthorizationModel
var keysGraph *modelgraph.AuthorizationModelGraph

func keysInit() {
	if keysGraph != nil {
		return
	}
	m := keysScenario().ModelProto()
	m.Id = ulid.Make().String()
	g, err := modelgraph.New(m)
	if err != nil {
		panic(err)
	}
	keysModel, keysGraph = m, g
}

// ids from the whole accepted range: "!bob", "$", "(y" sort before the wildcard "*", "-x" ".x" between
// it and the digits, then upper case, '_', lower case, '~', non-ASCII
var keysObjs = []string{"doc:1", "doc:2", "doc:10", "doc:!9", "doc:~z", "doc:A", "group:1", "group:2", "group:(g", "group:!g"}
var keysPlainUsers = []string{"user:a", "user:b", "user:!bob", "user:$", "user:(y", "user:-x", "user:.x", "user:0", "user:A", "user:_", "user:~z", "user:é"}

func genKeysTuple(r *rec.Rand) *openfgav1.TupleKey {
	o := rec.Pick(r, keysObjs)
	var rel, user, cond string
	if tuple.GetType(o) == "group" {
		rel = "member"
		user = rec.Pick(r, append(append([]string{}, keysPlainUsers...), "user:*", "user:*", "group:1#member", "group:2#member", "group:(g#member"))
		if strings.HasPrefix(user, "user:") && user != "user:*" {
			cond = rec.Pick(r, []string{"", "", "c1"})
		}
	} else {
		rel = rec.Pick(r, []string{"viewer", "viewer", "editor"})
		if rel == "viewer" {
			user = rec.Pick(r, append(append([]string{}, keysPlainUsers...), "user:*", "user:*", "group:1#member", "group:2#member", "group:(g#member", "group:1", "group:!g"))
			switch {
			case user == "user:*" || strings.Contains(user, "#"):
				cond = rec.Pick(r, []string{"", "c1"})
			case strings.HasPrefix(user, "user:"):
				cond = rec.Pick(r, []string{"", "c1", "c2"})
			}
		} else {
			user = rec.Pick(r, append(append([]string{}, keysPlainUsers...), "group:1#member"))
		}
	}
	var cx *structpb.Struct
	if cond != "" && r.Bool() {
		cx, _ = structpb.NewStruct(map[string]any{"x": r.Range(1, 2)})
	}
	return tuple.NewTupleKeyWithCondition(o, rel, user, cond, cx)
}

func runKeysCase(ctx context.Context, w *rec.Writer, seed uint64) {
	keysInit()
	r := rec.NewRand(seed)
	n := r.Range(0, 24)
	dups := r.Chance(1, 3)
	seen := map[string]bool{}
	var ts []*openfgav1.TupleKey
	for tries := 0; len(ts) < n && tries < 300; tries++ {
		t := genKeysTuple(r)
		if seen[keyOf(t)] && !dups {
			continue
		}
		seen[keyOf(t)] = true
		ts = append(ts, t)
	}
	desc := replayDesc{Kind: "keys", Seed: seed}
	storeID := ulid.Make().String()
	reqCtx, _ := structpb.NewStruct(map[string]any{"x": 1})

	// ---- InvariantCacheKey: a function of the multiset of contextual tuples, sensitive to each field
	base := storage.InvariantCacheKey(storeID, keysModel.GetId(), reqCtx, ts...)
	perm := append([]*openfgav1.TupleKey{}, ts...)
	rec.Shuffle(r, perm)
	if !dups { // TupleKeys.Less does not order by condition context: only sets of distinct keys are canonical
		if k := storage.InvariantCacheKey(storeID, keysModel.GetId(), reqCtx, perm...); k != base {
			w.PropFail("InvariantCacheKey depends on the order of the contextual tuples", desc)
		}
	}
	w.Stat("keys_perm_checked", 1)
	mutate := func(what string, f func([]*openfgav1.TupleKey) []*openfgav1.TupleKey) {
		cp := make([]*openfgav1.TupleKey, len(ts))
		for i, t := range ts {
			cp[i] = proto.Clone(t).(*openfgav1.TupleKey)
		}
		cp = f(cp)
		if k := storage.InvariantCacheKey(storeID, keysModel.GetId(), reqCtx, cp...); k == base {
			w.PropFail("InvariantCacheKey unchanged although the contextual tuples differ: "+what, desc)
		}
		w.Stat("keys_mutation_"+what, 1)
	}
	mutate("extra_tuple", func(c []*openfgav1.TupleKey) []*openfgav1.TupleKey {
		return append(c, tuple.NewTupleKey("doc:77", "viewer", "user:zz"))
	})
	if len(ts) > 0 {
		i := r.Intn(len(ts))
		mutate("dropped_tuple", func(c []*openfgav1.TupleKey) []*openfgav1.TupleKey { return append(c[:i], c[i+1:]...) })
		mutate("object", func(c []*openfgav1.TupleKey) []*openfgav1.TupleKey { c[i].Object = "doc:77"; return c })
		mutate("relation", func(c []*openfgav1.TupleKey) []*openfgav1.TupleKey { c[i].Relation = "zz"; return c })
		mutate("user", func(c []*openfgav1.TupleKey) []*openfgav1.TupleKey { c[i].User = "user:zz"; return c })
		mutate("condition_name", func(c []*openfgav1.TupleKey) []*openfgav1.TupleKey {
			c[i].Condition = tuple.NewRelationshipCondition(c[i].GetCondition().GetName()+"z", c[i].GetCondition().GetContext())
			return c
		})
		if ts[i].GetCondition() != nil {
			mutate("condition_context", func(c []*openfgav1.TupleKey) []*openfgav1.TupleKey {
				cx, _ := structpb.NewStruct(map[string]any{"x": 99})
				c[i].Condition = tuple.NewRelationshipCondition(c[i].GetCondition().GetName(), cx)
				return c
			})
		}
	}
	if storage.InvariantCacheKey(storeID, keysModel.GetId(), nil, ts...) == base {
		w.PropFail("InvariantCacheKey unchanged although the request context differs", desc)
	}
	if storage.InvariantCacheKey(ulid.Make().String(), keysModel.GetId(), reqCtx, ts...) == base {
		w.PropFail("InvariantCacheKey unchanged although the store differs", desc)
	}

	// ---- the weighted-graph engine's per-request indexes
	req, err := check.NewRequest(check.RequestParams{
		StoreID: storeID, Model: keysGraph, TupleKey: tuple.NewTupleKey("doc:1", "viewer", "user:a"),
		ContextualTuples: ts, Context: reqCtx,
	})
	if err != nil {
		w.PropFail(fmt.Sprintf("check.NewRequest rejected valid contextual tuples: %v", err), desc)
		return
	}
	var objs, users []string
	for _, t := range ts {
		objs = append(objs, t.GetObject())
		users = append(users, t.GetUser())
	}
	qObjs := keysObjs
	qUsers := append(append([]string{}, keysPlainUsers...), "user:*", "group:1#member", "group:2#member", "group:(g#member", "group:1", "group:!g")
	objs = append(objs, qObjs...)
	users = append(users, qUsers...)
	e := newEnc(objs, users)
	var byUser, byObj []rec.V
	for _, u := range qUsers {
		for _, rel := range []string{"viewer", "editor", "member"} {
			for _, ot := range []string{"doc", "group"} {
				got, ok := req.GetContextualTuplesByUserID(u, rel, ot)
				if !ok && len(got) != 0 {
					w.PropFail("index returned tuples with ok=false", desc)
				}
				byUser = append(byUser, rec.L(rec.I(e.usrRank[u]), rec.I(e.sym(rel)), rec.I(e.sym(ot)), rec.Bool(ok), e.tupleKeys(got)))
			}
		}
	}
	for _, o := range qObjs {
		for _, rel := range []string{"viewer", "editor", "member"} {
			for _, ut := range [][2]string{{"user", ""}, {"group", "member"}, {"group", ""}} {
				label := ut[0]
				if ut[1] != "" {
					label = ut[0] + "#" + ut[1]
				}
				got, ok := req.GetContextualTuplesByObjectID(o, rel, label)
				byObj = append(byObj, rec.L(rec.I(e.obj(o)), rec.I(e.sym(rel)), rec.I(e.sym(ut[0])), rec.I(e.sym(ut[1])), rec.Bool(ok), e.tupleKeys(got)))
			}
		}
	}
	w.Stat("keys_cases", 1)
	if dups {
		w.Stat("keys_cases_with_duplicate_keys", 1)
	}
	w.Case(desc, rec.I(3), e.tupleKeys(ts), rec.L(byUser...), rec.L(byObj...))
}
