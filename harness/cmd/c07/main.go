//go:build verif

// Driver for C07 (BatchCheck is equivalent to individual Checks).
//
// Per generated scenario (scen.Generate, memory backend) a handful of batches is built from the
// scenario's request space.  Every batch is run through the REAL implementation
//
//	mode "cmd": commands.NewBatchCheckCommand(commands.NewCheckCommand(...)).Execute, resolver chain with
//	            the check query cache off or on, planner forced to the default strategy;
//	mode "api": server.Server.BatchCheck (pkg/server/batch_check.go: proto validation, configured
//	            limit, error-code mapping) on a server over the scenario's datastore;
//
// and every item is ALSO run as a standalone commands.CheckQuery with the same tuple, contextual
// tuples and context.  One record per batch: the items (correlation id, the de-duplication key of the
// item, its equivalence class, its standalone outcome), the observed response, and the scenario
// encoded for Check/V1.v (the oracle consults V1's outcome SET of an item only to tolerate outcomes
// that depend on goroutine scheduling, never to raise an alarm).
package main

import (
	"bufio"
	"context"
	"encoding/json"
	"errors"
	"fmt"
	"os"
	"sort"
	"strings"
	"time"

	openfgav1 "github.com/openfga/api/proto/openfga/v1"
	"google.golang.org/grpc/status"
	"google.golang.org/protobuf/types/known/structpb"

	"github.com/openfga/openfga/internal/condition"
	"github.com/openfga/openfga/internal/graph"
	"github.com/openfga/openfga/internal/planner"
	"github.com/openfga/openfga/internal/verifharness/lib/rec"
	"github.com/openfga/openfga/internal/verifharness/lib/scen"
	"github.com/openfga/openfga/pkg/server"
	"github.com/openfga/openfga/pkg/server/commands"
	"github.com/openfga/openfga/pkg/server/config"
	"github.com/openfga/openfga/pkg/storage"
	"github.com/openfga/openfga/pkg/storage/cache/keys"
)

const maxDepth = 25

// outcome classes, in the order of Query/Batch.v errclass
const (
	oAllowed = iota
	oDenied
	oInvRel
	oInvTuple
	oDepth
	oCond
	oInvCtx
	oThrottled
	oDeadline
	oOther
)

var outNames = []string{"allowed", "denied", "invalid_relation", "invalid_tuple", "depth", "cond_eval", "invalid_context", "throttled", "deadline", "other"}

// classify mirrors the ORDER of the tests in transformCheckCommandErrorToBatchCheckError.
func classify(allowed bool, err error) int {
	if err == nil {
		if allowed {
			return oAllowed
		}
		return oDenied
	}
	var ire *commands.InvalidRelationError
	var ite *commands.InvalidTupleError
	var ice *commands.InvalidContextError
	var the *commands.ThrottledError
	switch {
	case errors.As(err, &ire):
		return oInvRel
	case errors.As(err, &ite):
		return oInvTuple
	case errors.Is(err, graph.ErrResolutionDepthExceeded):
		return oDepth
	case errors.Is(err, condition.ErrEvaluationFailed):
		return oCond
	case errors.As(err, &ice):
		return oInvCtx
	case errors.As(err, &the):
		return oThrottled
	case errors.Is(err, context.DeadlineExceeded):
		return oDeadline
	}
	return oOther
}

type Item struct {
	ID     string         `json:"id"`
	Obj    string         `json:"obj"`
	Rel    string         `json:"rel"`
	User   string         `json:"user"`
	CT     []scen.Tuple   `json:"ct,omitempty"`
	HasCtx bool           `json:"has_ctx,omitempty"`
	Ctx    map[string]any `json:"ctx,omitempty"`
	Kind   string         `json:"kind,omitempty"`
	Parent int            `json:"parent,omitempty"` // 1 + index of the item this one is a variant of
}

type Batch struct {
	Mode  string `json:"mode"`  // cmd | api
	Limit int    `json:"limit"` // -1: no option given (the default of the code)
	Conc  int    `json:"conc"`
	Cache bool   `json:"cache"`
	Depth int    `json:"depth"` // resolution depth limit (0 = 25)
	Label string `json:"label"`
	Items []Item `json:"items"`
}

func (it Item) ctxStruct() *structpb.Struct {
	if !it.HasCtx {
		return nil
	}
	m := it.Ctx
	if m == nil {
		m = map[string]any{}
	}
	s, err := structpb.NewStruct(m)
	if err != nil {
		panic(err)
	}
	return s
}

func (it Item) ctProto() *openfgav1.ContextualTupleKeys {
	if it.CT == nil {
		return nil
	}
	ct := &openfgav1.ContextualTupleKeys{}
	for _, t := range it.CT {
		ct.TupleKeys = append(ct.TupleKeys, t.Proto())
	}
	return ct
}

func jsonOf(v any) string {
	b, err := json.Marshal(v)
	if err != nil {
		panic(err)
	}
	return string(b)
}

// exact identifies the request without its correlation id (memo key of the standalone runs).
func (it Item) exact() string {
	return jsonOf([]any{it.Obj, it.Rel, it.User, it.CT, it.HasCtx, it.Ctx})
}

func ctKey(t scen.Tuple) string { return t.Obj + "#" + t.Rel + "@" + t.User }

func ctCanon(t scen.Tuple) string {
	if t.Cond == "" {
		return ctKey(t)
	}
	c := t.Ctx
	if c == nil {
		c = map[string]any{}
	}
	return ctKey(t) + " with " + t.Cond + " " + jsonOf(c)
}

// sem is the equivalence class of a request: the check tuple, the context as a map (nil = empty),
// and the contextual tuples as a multiset EXCEPT that contextual tuples with the same (object,
// relation, user) keep their request order (CombinedTupleReader.ReadUserTuple returns the first).
// mset is the request with its contextual tuples as a plain multiset (order forgotten entirely): two
// requests of different classes but one multiset differ only in the order of contextual tuples that
// repeat an (object, relation, user).
func (it Item) mset() string {
	parts := make([]string, len(it.CT))
	for i, t := range it.CT {
		parts[i] = ctCanon(t)
	}
	sort.Strings(parts)
	c := it.Ctx
	if !it.HasCtx || c == nil {
		c = map[string]any{}
	}
	return jsonOf([]any{it.Obj, it.Rel, it.User, parts, c})
}

func (it Item) sem() (string, bool) {
	cts := append([]scen.Tuple(nil), it.CT...)
	sort.SliceStable(cts, func(i, j int) bool { return ctKey(cts[i]) < ctKey(cts[j]) })
	dup := false
	parts := make([]string, len(cts))
	for i, t := range cts {
		parts[i] = ctCanon(t)
		if i > 0 && ctKey(cts[i-1]) == ctKey(t) {
			dup = true
		}
	}
	c := it.Ctx
	if !it.HasCtx || c == nil {
		c = map[string]any{}
	}
	return jsonOf([]any{it.Obj, it.Rel, it.User, parts, c}), dup
}

// ---------------------------------------------------------------------------------------------

type sc struct {
	s        *scen.Scenario
	env      *scen.Env
	in       *scen.Intern
	memo     map[string]int
	res      map[string]graph.CheckResolver
	closers  []func()
	servers  map[string]*server.Server
	tupleV   []rec.V
	modelV   rec.V
	condsV   rec.V
	ctxCeval map[string][]int
}

func newSc(ctx context.Context, s *scen.Scenario) (*sc, error) {
	env, err := scen.NewEnv(ctx, s)
	if err != nil {
		return nil, err
	}
	x := &sc{s: s, env: env, in: scen.NewIntern(), memo: map[string]int{}, res: map[string]graph.CheckResolver{},
		servers: map[string]*server.Server{}, ctxCeval: map[string][]int{}}
	x.modelV = x.in.Model(s)
	x.condsV = x.in.Conds(s)
	for _, t := range s.Tuples {
		x.tupleV = append(x.tupleV, x.in.Tuple(t, 0))
	}
	return x, nil
}

func (x *sc) close() {
	for _, c := range x.closers {
		c()
	}
	for _, s := range x.servers {
		s.Close()
	}
	x.env.Close()
}

func buildResolver(pl planner.Manager, cache bool, depth int) (graph.CheckResolver, func()) {
	opts := []graph.CheckResolverOrderedBuilderOpt{
		graph.WithLocalCheckerOpts(graph.WithPlanner(pl), graph.WithMaxResolutionDepth(uint32(depth)), graph.WithOptimizations(true)),
	}
	if cache {
		opts = append(opts, graph.WithCachedCheckResolverOpts(true))
	}
	r, closer, err := graph.NewOrderedCheckResolvers(opts...).Build()
	if err != nil {
		panic(err)
	}
	return r, closer
}

func (x *sc) resolver(strategy string, depth int) graph.CheckResolver {
	k := fmt.Sprint(strategy, depth)
	if r, ok := x.res[k]; ok {
		return r
	}
	r, closer := buildResolver(scen.NewForcedPlanner(strategy), false, depth)
	x.res[k] = r
	x.closers = append(x.closers, closer)
	return r
}

func (x *sc) params(it Item) *commands.CheckCommandParams {
	return &commands.CheckCommandParams{
		StoreID:          x.env.StoreID,
		TupleKey:         &openfgav1.CheckRequestTupleKey{Object: it.Obj, Relation: it.Rel, User: it.User},
		ContextualTuples: it.ctProto(),
		Context:          it.ctxStruct(),
	}
}

// standalone CheckQuery (no cache, planner forced to one strategy)
func (x *sc) standalone(ctx context.Context, it Item, strategy string, depth int) int {
	k := fmt.Sprint(strategy, depth) + "|" + it.exact()
	if v, ok := x.memo[k]; ok {
		return v
	}
	cmd := commands.NewCheckCommand(x.env.DS, x.resolver(strategy, depth), x.env.TS)
	cctx, cancel := context.WithTimeout(ctx, 20*time.Second)
	defer cancel()
	res, err := cmd.Execute(cctx, x.params(it))
	v := classify(res != nil && res.Allowed, err)
	x.memo[k] = v
	return v
}

// realKey is the expression of generateCacheKeyFromCheck on exported functions.
func (x *sc) realKey(it Item) keys.Key {
	return storage.CheckCacheKey(x.env.StoreID, it.Obj, it.Rel, it.User,
		storage.InvariantCacheKey(x.env.StoreID, x.env.Model.GetId(), it.ctxStruct(), it.ctProto().GetTupleKeys()...))
}

func (x *sc) server(limit int, cache bool, depth int) *server.Server {
	k := fmt.Sprint(limit, cache, depth)
	if s, ok := x.servers[k]; ok {
		return s
	}
	opts := []server.OpenFGAServiceV1Option{
		server.WithDatastore(x.env.DS),
		server.WithRequestTimeout(30 * time.Second),
		server.WithResolveNodeLimit(uint32(depth)),
		server.WithCheckQueryCacheEnabled(cache),
	}
	if limit >= 0 {
		opts = append(opts, server.WithMaxChecksPerBatchCheck(uint32(limit)))
	}
	s := server.MustNewServerWithOpts(opts...)
	x.servers[k] = s
	return s
}

// ---------------------------------------------------------------------------------------------
// V1 data of one item: ( ot oi rel subject pathxIndex (ctxtuple...) cevalIndex )

func (x *sc) v1Item(ctx context.Context, it Item, pxs *[]rec.V, pxIdx map[string]int, cevs *[]rec.V, cevIdx map[string]int) rec.V {
	ot, _ := scen.SplitObj(it.Obj)
	if x.s.Rel(ot, it.Rel) == nil {
		return rec.L()
	}
	ut, uid, _ := scen.SplitUser(it.User)
	if ut == "" || uid == "" {
		return rec.L()
	}
	if _, ok := pxIdx[it.User]; !ok {
		var ps []rec.V
		for _, p := range x.env.PathX(it.User) {
			ps = append(ps, rec.L(rec.I(x.in.T(p[0])), rec.I(x.in.R(p[1]))))
		}
		pxIdx[it.User] = len(*pxs)
		*pxs = append(*pxs, rec.L(ps...))
	}
	rc := it.ctxStruct()
	ck := jsonOf([]any{it.HasCtx, it.Ctx})
	if _, ok := cevIdx[ck]; !ok {
		v, ok2 := x.ctxCeval[ck]
		if !ok2 {
			for _, t := range x.s.Tuples {
				v = append(v, x.env.CEvalCtx(ctx, t, rc))
			}
			x.ctxCeval[ck] = v
		}
		cevIdx[ck] = len(*cevs)
		*cevs = append(*cevs, rec.LI(v))
	}
	// CombinedTupleReader orders the contextual tuples by object (stable for these sizes)
	cts := append([]scen.Tuple(nil), it.CT...)
	sort.SliceStable(cts, func(i, j int) bool { return cts[i].Obj < cts[j].Obj })
	var ctv []rec.V
	for _, t := range cts {
		ctv = append(ctv, x.in.Tuple(t, x.env.CEvalCtx(ctx, t, rc)))
	}
	a, b := x.in.Obj(it.Obj)
	return rec.L(a, b, rec.I(x.in.R(it.Rel)), x.in.Subject(it.User), rec.I(pxIdx[it.User]), rec.L(ctv...), rec.I(cevIdx[ck]))
}

// ---------------------------------------------------------------------------------------------
// running one batch

func rejectClass(msg string) (int, string) {
	switch {
	case strings.Contains(msg, "batchCheck received "):
		return 0, ""
	case strings.Contains(msg, "batch check requires at least one check"):
		return 1, ""
	case strings.Contains(msg, "received empty correlation id"):
		return 2, ""
	case strings.Contains(msg, "received duplicate correlation id: "):
		i := strings.Index(msg, "received duplicate correlation id: ")
		return 3, msg[i+len("received duplicate correlation id: "):]
	}
	return -1, msg
}

func apiItemClass(r *openfgav1.BatchCheckSingleResult) int {
	switch v := r.GetCheckResult().(type) {
	case *openfgav1.BatchCheckSingleResult_Allowed:
		if v.Allowed {
			return 0
		}
		return 1
	case *openfgav1.BatchCheckSingleResult_Error:
		switch c := v.Error.GetCode().(type) {
		case *openfgav1.CheckError_InputError:
			switch c.InputError {
			case openfgav1.ErrorCode_validation_error:
				return 10
			case openfgav1.ErrorCode_invalid_tuple:
				return 11
			case openfgav1.ErrorCode_authorization_model_resolution_too_complex:
				return 12
			}
			return 100 + int(c.InputError)
		case *openfgav1.CheckError_InternalError:
			switch c.InternalError {
			case openfgav1.InternalErrorCode_deadline_exceeded:
				return 13
			case openfgav1.InternalErrorCode_internal_error:
				return 14
			}
			return 100000 + int(c.InternalError)
		}
	}
	return 99
}

func (x *sc) runBatch(ctx context.Context, w *rec.Writer, b Batch) {
	api := b.Mode == "api"
	depth := b.Depth
	if depth <= 0 {
		depth = maxDepth
	}
	if depth != maxDepth {
		w.Stat("batches_small_depth", 1)
	}
	w.Stat("batches_"+b.Mode, 1)
	w.Stat("label_"+b.Label, 1)
	if b.Cache {
		w.Stat("batches_cache_on", 1)
	}
	// items
	keyIdx := map[keys.Key]int{}
	semIdx := map[string]int{}
	msIdx := map[string]int{}
	var pxs, cevs []rec.V
	pxIdx, cevIdx := map[string]int{}, map[string]int{}
	var itemVs []rec.V
	var checks []*openfgav1.BatchCheckItem
	outBySem := map[int]int{}
	semByKey := map[int]int{}
	var outs []int
	for _, it := range b.Items {
		k := x.realKey(it)
		if _, ok := keyIdx[k]; !ok {
			keyIdx[k] = len(keyIdx) + 1
		}
		sm, dup := it.sem()
		if _, ok := semIdx[sm]; !ok {
			semIdx[sm] = len(semIdx) + 1
		}
		ms := it.mset()
		if _, ok := msIdx[ms]; !ok {
			msIdx[ms] = len(msIdx) + 1
		}
		out := x.standalone(ctx, it, "default", depth)
		w.Stat("items", 1)
		w.Stat("standalone_"+outNames[out], 1)
		if it.Kind != "" {
			w.Stat("kind_"+it.Kind, 1)
		}
		outs = append(outs, out)
		if it.Parent > 0 && it.Parent <= len(outs) && outs[it.Parent-1] != out {
			w.Stat("kind_"+it.Kind+"_changes_outcome", 1)
		}
		if prev, ok := semByKey[keyIdx[k]]; ok && prev != semIdx[sm] {
			w.Stat("same_key_different_class", 1)
		}
		semByKey[keyIdx[k]] = semIdx[sm]
		if prev, ok := outBySem[semIdx[sm]]; ok && prev != out {
			w.Stat("same_class_different_standalone_outcome", 1)
		}
		outBySem[semIdx[sm]] = out
		var refs []rec.V
		if api {
			refs = append(refs, rec.I(x.standalone(ctx, it, "weight2", depth)), rec.I(x.standalone(ctx, it, "recursive", depth)))
		}
		// what the item answers when the depth limit is out of the way (the query cache can shortcut a
		// resolution that would otherwise exceed the limit)
		deep := out
		if out == oDepth && depth != maxDepth {
			deep = x.standalone(ctx, it, "default", maxDepth)
		}
		itemVs = append(itemVs, rec.L(rec.S(it.ID), rec.I(keyIdx[k]), rec.I(semIdx[sm]), rec.I(out), rec.Bool(dup), rec.I(msIdx[ms]), rec.I(deep),
			rec.L(refs...), x.v1Item(ctx, it, &pxs, pxIdx, &cevs, cevIdx)))
		checks = append(checks, &openfgav1.BatchCheckItem{
			TupleKey:         &openfgav1.CheckRequestTupleKey{Object: it.Obj, Relation: it.Rel, User: it.User},
			ContextualTuples: it.ctProto(),
			Context:          it.ctxStruct(),
			CorrelationId:    it.ID,
		})
	}
	w.Stat("distinct_keys", len(keyIdx))
	w.Stat("distinct_classes", len(semIdx))
	seenOut := map[int]bool{}
	for _, o := range outBySem {
		seenOut[o] = true
	}
	if len(seenOut) > 1 {
		w.Stat("batches_with_different_outcomes", 1)
	}

	limit := b.Limit
	if limit < 0 {
		limit = config.DefaultMaxChecksPerBatchCheck
	}
	// api mode: do the fields other than the correlation id pass the proto rules?  (generated
	// validator of the api module used as an oracle; a failure makes the whole request InvalidArgument)
	fieldsBad := false
	if api {
		for _, c := range checks {
			cp := &openfgav1.BatchCheckItem{TupleKey: c.TupleKey, ContextualTuples: c.ContextualTuples, Context: c.Context, CorrelationId: "x"}
			if cp.Validate() != nil {
				fieldsBad = true
			}
		}
		if fieldsBad {
			w.Stat("api_item_fields_invalid", 1)
		}
	}
	var observed rec.V
	if !api {
		pl := scen.NewForcedPlanner("default")
		resolver, closer := buildResolver(pl, b.Cache, depth)
		checker := commands.NewCheckCommand(x.env.DS, resolver, x.env.TS)
		opts := []commands.BatchCheckQueryOption{commands.WithBatchCheckMaxConcurrentChecks(uint32(b.Conc))}
		if b.Limit >= 0 {
			opts = append(opts, commands.WithBatchCheckMaxChecksPerBatch(uint32(b.Limit)))
		}
		cmd := commands.NewBatchCheckCommand(checker, opts...)
		cctx, cancel := context.WithTimeout(ctx, 60*time.Second)
		res, md, err := cmd.Execute(cctx, &commands.BatchCheckCommandParams{
			AuthorizationModelID: x.env.Model.GetId(),
			Checks:               checks,
			StoreID:              x.env.StoreID,
		})
		cancel()
		closer()
		if err != nil {
			var ve *commands.BatchCheckValidationError
			if errors.As(err, &ve) {
				c, id := rejectClass(ve.Error())
				observed = rec.L(rec.I(0), rec.I(c), rec.S(id))
				w.Stat(fmt.Sprintf("cmd_rejected_%d", c), 1)
			} else {
				observed = rec.L(rec.I(2), rec.S(err.Error()))
			}
		} else {
			ids := make([]string, 0, len(res))
			for id := range res {
				ids = append(ids, string(id))
			}
			sort.Strings(ids)
			var rs []rec.V
			for _, id := range ids {
				o := res[commands.CorrelationID(id)]
				c := classify(o.Allowed, o.Err)
				w.Stat("batch_"+outNames[c], 1)
				rs = append(rs, rec.L(rec.S(id), rec.I(c)))
			}
			observed = rec.L(rec.I(1), rec.L(rs...), rec.I(md.DuplicateCheckCount))
			w.Stat("cmd_accepted", 1)
			w.Stat("duplicate_checks_saved", md.DuplicateCheckCount)
		}
	} else {
		srv := x.server(b.Limit, b.Cache, depth)
		res, err := srv.BatchCheck(ctx, &openfgav1.BatchCheckRequest{
			StoreId:              x.env.StoreID,
			AuthorizationModelId: x.env.Model.GetId(),
			Checks:               checks,
		})
		if err != nil {
			st, _ := status.FromError(err)
			code := int(st.Code())
			switch code {
			case 3: // codes.InvalidArgument: proto rules
				observed = rec.L(rec.I(0), rec.I(0), rec.I(-1), rec.S(""))
				w.Stat("api_invalid_argument", 1)
			case int(openfgav1.ErrorCode_validation_error):
				c, id := rejectClass(st.Message())
				observed = rec.L(rec.I(0), rec.I(1), rec.I(c), rec.S(id))
				w.Stat(fmt.Sprintf("api_rejected_%d", c), 1)
			default:
				observed = rec.L(rec.I(2), rec.S(fmt.Sprintf("code %d: %s", code, st.Message())))
			}
		} else {
			ids := make([]string, 0, len(res.GetResult()))
			for id := range res.GetResult() {
				ids = append(ids, id)
			}
			sort.Strings(ids)
			var rs []rec.V
			for _, id := range ids {
				c := apiItemClass(res.GetResult()[id])
				w.Stat(fmt.Sprintf("api_item_%d", c), 1)
				rs = append(rs, rec.L(rec.S(id), rec.I(c)))
			}
			observed = rec.L(rec.I(1), rec.L(rs...))
			w.Stat("api_accepted", 1)
		}
	}
	// conditioned store tuples get their outcome per item context: the base encoding carries 0
	var extra []string
	for _, it := range b.Items {
		extra = append(extra, it.Obj, it.User)
		for _, t := range it.CT {
			extra = append(extra, t.Obj, t.User)
		}
	}
	nAtoms := 0
	for _, o := range x.s.Objects(extra...) {
		ot, _ := scen.SplitObj(o)
		if td := x.s.Type(ot); td != nil {
			nAtoms += len(td.Rels)
		}
	}
	v1 := rec.L(x.modelV, x.condsV, rec.L(x.tupleV...), rec.L(cevs...), rec.L(pxs...), rec.I(depth), rec.I(nAtoms+3))
	mode := 0
	if api {
		mode = 1
	}
	nt := len(b.Items) > 0
	w.Case(map[string]any{"scenario": x.s, "batch": b, "nt": nt},
		rec.I(2), rec.I(mode), rec.I(limit), rec.Bool(fieldsBad), rec.Bool(b.Cache), rec.L(itemVs...), observed, v1)
}

// ---------------------------------------------------------------------------------------------
// batch generation

type bgen struct {
	r     *rec.Rand
	s     *scen.Scenario
	cands []scen.Tuple // tuples the model allows on directly assignable relations
	subj  []string
	objs  []string
	nid   int
}

var userIDs = []string{"a", "b", "c"}

func idsOf(t string) []string {
	if t == "user" {
		return userIDs
	}
	return []string{"1", "2", "3"}
}

func newBgen(r *rec.Rand, s *scen.Scenario) *bgen {
	g := &bgen{r: r, s: s}
	for _, td := range s.Types {
		for _, rd := range td.Rels {
			if !rd.RW.HasThis() {
				continue
			}
			for _, oid := range idsOf(td.Name) {
				obj := td.Name + ":" + oid
				for _, rs := range rd.Restr {
					switch rs.Kind {
					case scen.KObj:
						for _, uid := range idsOf(rs.Type) {
							g.cands = append(g.cands, scen.Tuple{Obj: obj, Rel: rd.Name, User: rs.Type + ":" + uid, Cond: rs.Cond})
						}
					case scen.KWild:
						g.cands = append(g.cands, scen.Tuple{Obj: obj, Rel: rd.Name, User: rs.Type + ":*", Cond: rs.Cond})
					case scen.KSet:
						for _, uid := range idsOf(rs.Type) {
							g.cands = append(g.cands, scen.Tuple{Obj: obj, Rel: rd.Name, User: rs.Type + ":" + uid + "#" + rs.Rel, Cond: rs.Cond})
						}
					}
				}
			}
		}
	}
	g.subj = s.Subjects(r, 4)
	for _, o := range s.Objects(g.subj...) {
		ot, _ := scen.SplitObj(o)
		if td := s.Type(ot); td != nil && len(td.Rels) > 0 {
			g.objs = append(g.objs, o)
		}
	}
	if len(g.objs) == 0 {
		for _, td := range s.Types {
			if len(td.Rels) > 0 {
				g.objs = append(g.objs, td.Name+":1")
			}
		}
	}
	return g
}

func (g *bgen) tupleCtx(cond string) map[string]any {
	if cond == "" {
		return nil
	}
	switch g.r.Intn(6) {
	case 0, 1:
		return map[string]any{"x": 1}
	case 2, 3:
		return map[string]any{"x": -1}
	}
	return nil // the parameter comes from the request context, or is missing
}

func (g *bgen) reqCtx() (bool, map[string]any) {
	switch g.r.Intn(12) {
	case 0, 1:
		return false, nil
	case 2:
		return true, map[string]any{}
	case 3, 4, 5:
		return true, map[string]any{"x": 1}
	case 6, 7:
		return true, map[string]any{"x": -1}
	case 8:
		return true, map[string]any{"x": 2}
	case 9:
		return true, map[string]any{"x": 1, "y": "s"}
	case 10:
		return true, map[string]any{"x": "one"}
	}
	if g.r.Chance(1, 4) {
		return true, map[string]any{"k\u0001": 1} // forbidden character: InvalidContextError
	}
	return true, map[string]any{"y": true}
}

// a contextual tuple; decisive = grants the request directly when the model allows it
func (g *bgen) ctxTuple(it Item, decisive bool) (scen.Tuple, bool) {
	if decisive {
		var fit []scen.Tuple
		for _, c := range g.cands {
			if c.Obj == it.Obj && c.Rel == it.Rel && (c.User == it.User || strings.HasSuffix(c.User, ":*")) {
				fit = append(fit, c)
			}
		}
		if len(fit) == 0 {
			for _, c := range g.cands {
				if c.Obj == it.Obj {
					fit = append(fit, c)
				}
			}
		}
		if len(fit) > 0 {
			var cfit []scen.Tuple
			for _, c := range fit {
				if c.Cond != "" {
					cfit = append(cfit, c)
				}
			}
			if len(cfit) > 0 && g.r.Chance(2, 3) {
				fit = cfit
			}
			t := rec.Pick(g.r, fit)
			t.Ctx = g.tupleCtx(t.Cond)
			return t, true
		}
	}
	if len(g.cands) == 0 {
		return scen.Tuple{}, false
	}
	t := rec.Pick(g.r, g.cands)
	if g.r.Chance(1, 12) { // invalid for the model: InvalidTupleError for the whole item
		switch g.r.Intn(3) {
		case 0:
			t.User = "ghost:a"
		case 1:
			t.Cond = "zz"
		default:
			t.Rel = "ghost"
		}
	}
	t.Ctx = g.tupleCtx(t.Cond)
	return t, true
}

func (g *bgen) baseItem() Item {
	// a request that a conditioned contextual tuple decides: its outcome follows the contexts
	var cc []scen.Tuple
	for _, c := range g.cands {
		if c.Cond != "" {
			cc = append(cc, c)
		}
	}
	if len(cc) > 0 && g.r.Chance(1, 3) {
		c := rec.Pick(g.r, cc)
		it := Item{Obj: c.Obj, Rel: c.Rel, User: c.User, Kind: "base_cond"}
		if strings.HasSuffix(c.User, ":*") {
			it.User = strings.TrimSuffix(c.User, "*") + rec.Pick(g.r, userIDs)
		}
		it.HasCtx, it.Ctx = g.reqCtx()
		if g.r.Chance(1, 4) {
			c.Ctx = g.tupleCtx(c.Cond)
		}
		it.CT = []scen.Tuple{c}
		if g.r.Chance(1, 3) {
			if t, ok := g.ctxTuple(it, false); ok {
				it.CT = append(it.CT, t)
			}
		}
		return it
	}
	it := Item{Obj: rec.Pick(g.r, g.objs), User: rec.Pick(g.r, g.subj), Kind: "base"}
	ot, _ := scen.SplitObj(it.Obj)
	td := g.s.Type(ot)
	if td != nil && len(td.Rels) > 0 && !g.r.Chance(1, 25) {
		it.Rel = rec.Pick(g.r, td.Rels).Name
	} else {
		it.Rel = "ghost"
	}
	it.HasCtx, it.Ctx = g.reqCtx()
	n := 0
	switch g.r.Intn(6) {
	case 0, 1:
		n = 0
	case 2, 3:
		n = 1
	case 4:
		n = 2
	default:
		n = 3
	}
	for i := 0; i < n; i++ {
		if t, ok := g.ctxTuple(it, g.r.Chance(2, 3)); ok {
			it.CT = append(it.CT, t)
		}
	}
	return it
}

func cloneItem(it Item) Item {
	c := it
	c.CT = append([]scen.Tuple(nil), it.CT...)
	if it.Ctx != nil {
		c.Ctx = map[string]any{}
		for k, v := range it.Ctx {
			c.Ctx[k] = v
		}
	}
	return c
}

// variant: an item that differs from it in exactly one respect
func (g *bgen) variant(it Item) Item {
	v := cloneItem(it)
	r := g.r
	for try := 0; try < 6; try++ {
		switch r.Intn(13) {
		case 0:
			v.Kind = "same"
			return v
		case 1:
			v.HasCtx, v.Ctx = g.reqCtx()
			v.Kind = "ctx_value"
			return v
		case 2: // same context, fields inserted in another order (a Go map has no order)
			if len(v.Ctx) >= 2 {
				ks := make([]string, 0, len(v.Ctx))
				for k := range v.Ctx {
					ks = append(ks, k)
				}
				sort.Sort(sort.Reverse(sort.StringSlice(ks)))
				m := map[string]any{}
				for _, k := range ks {
					m[k] = v.Ctx[k]
				}
				v.Ctx = m
				v.Kind = "ctx_field_order"
				return v
			}
		case 3: // nil context <-> empty context
			if !v.HasCtx || len(v.Ctx) == 0 {
				v.HasCtx = !v.HasCtx
				v.Ctx = nil
				if v.HasCtx {
					v.Ctx = map[string]any{}
				}
				v.Kind = "ctx_nil_empty"
				return v
			}
		case 4:
			if len(v.CT) >= 2 {
				// prefer exchanging two contextual tuples with the same (object, relation, user)
				for i := 0; i < len(v.CT); i++ {
					for j := i + 1; j < len(v.CT); j++ {
						if ctKey(v.CT[i]) == ctKey(v.CT[j]) && ctCanon(v.CT[i]) != ctCanon(v.CT[j]) {
							v.CT[i], v.CT[j] = v.CT[j], v.CT[i]
							v.Kind = "ct_order_same_key"
							return v
						}
					}
				}
				i := r.Intn(len(v.CT) - 1)
				v.CT[i], v.CT[i+1] = v.CT[i+1], v.CT[i]
				v.Kind = "ct_order"
				return v
			}
		case 5, 6:
			if t, ok := g.ctxTuple(v, true); ok && len(v.CT) < 5 {
				v.CT = append(v.CT, t)
				v.Kind = "ct_plus"
				return v
			}
		case 7:
			if len(v.CT) >= 1 {
				i := r.Intn(len(v.CT))
				v.CT = append(v.CT[:i:i], v.CT[i+1:]...)
				if len(v.CT) == 0 {
					v.CT = nil
				}
				v.Kind = "ct_minus"
				return v
			}
		case 8, 9: // condition context of one contextual tuple
			var idx []int
			for i, t := range v.CT {
				if t.Cond != "" {
					idx = append(idx, i)
				}
			}
			if len(idx) > 0 {
				i := rec.Pick(r, idx)
				old := jsonOf(v.CT[i].Ctx)
				for k := 0; k < 5 && jsonOf(v.CT[i].Ctx) == old; k++ {
					v.CT[i].Ctx = g.tupleCtx(v.CT[i].Cond)
				}
				v.Kind = "ct_cond_ctx"
				return v
			}
		case 10: // same (object, relation, user) twice among the contextual tuples, other condition
			if len(v.CT) >= 1 && len(v.CT) < 5 {
				i := r.Intn(len(v.CT))
				d := v.CT[i]
				var alts []scen.Tuple
				for _, c := range g.cands {
					if c.Obj == d.Obj && c.Rel == d.Rel && c.User == d.User && c.Cond != d.Cond {
						alts = append(alts, c)
					}
				}
				if len(alts) > 0 {
					d = rec.Pick(r, alts)
				}
				d.Ctx = g.tupleCtx(d.Cond)
				if r.Bool() {
					v.CT = append(v.CT, d)
				} else {
					v.CT = append([]scen.Tuple{d}, v.CT...)
				}
				v.Kind = "ct_dup_key"
				return v
			}
		case 11:
			v.User = rec.Pick(r, g.subj)
			v.Kind = "user"
			return v
		default:
			ot, _ := scen.SplitObj(v.Obj)
			if td := g.s.Type(ot); td != nil && len(td.Rels) > 0 {
				v.Rel = rec.Pick(r, td.Rels).Name
				v.Kind = "relation"
				return v
			}
		}
	}
	v.Kind = "same"
	return v
}

var weirdIDs = []string{"a b", "ü", "x.y", strings.Repeat("a", 37), "a\n", "i/1"}

func (g *bgen) id(api bool) string {
	g.nid++
	switch g.r.Intn(8) {
	case 0:
		return fmt.Sprintf("%d", g.nid)
	case 1:
		return fmt.Sprintf("req-%d_X", g.nid)
	case 2:
		s := fmt.Sprintf("%036d", g.nid) // 36 characters: the longest the pattern admits
		return s
	}
	return fmt.Sprintf("i%d", g.nid)
}

func (g *bgen) batch(mode string) Batch {
	r := g.r
	api := mode == "api"
	b := Batch{Mode: mode, Conc: rec.Pick(r, []int{1, 2, 4, 25}), Cache: r.Bool(), Label: "valid"}
	b.Limit = rec.Pick(r, []int{-1, -1, 1, 3, 8, 20})
	if r.Chance(1, 6) {
		b.Depth = r.Range(1, 4)
	}
	limit := b.Limit
	if limit < 0 {
		limit = config.DefaultMaxChecksPerBatchCheck
	}
	n := r.Range(1, 14)
	switch r.Intn(10) {
	case 0:
		n = limit // exactly the limit
		b.Label = "at_limit"
	case 1:
		n = limit + 1
		b.Label = "over_limit"
	case 2:
		if r.Chance(1, 2) {
			n = 0
			b.Label = "empty"
		}
	}
	if b.Label == "valid" && n > limit {
		n = limit
	}
	for len(b.Items) < n {
		var it Item
		if len(b.Items) == 0 || r.Chance(1, 4) {
			it = g.baseItem()
		} else {
			p := r.Intn(len(b.Items))
			it = g.variant(b.Items[p])
			it.Parent = p + 1
		}
		it.ID = g.id(api)
		b.Items = append(b.Items, it)
	}
	// malformed correlation ids
	if n >= 1 && r.Chance(1, 5) {
		k := r.Range(1, 2)
		for j := 0; j < k; j++ {
			i := r.Intn(len(b.Items))
			switch x := r.Intn(5); {
			case x <= 1 && len(b.Items) >= 2:
				o := r.Intn(len(b.Items))
				if o != i {
					b.Items[i].ID = b.Items[o].ID
					b.Label = "dup_id"
				}
			case x == 2:
				b.Items[i].ID = ""
				b.Label = "empty_id"
			case x == 3 && api:
				b.Items[i].ID = rec.Pick(r, weirdIDs)
				b.Label = "bad_id_pattern"
			default:
				if !api { // the command accepts anything that is non-empty and unique
					b.Items[i].ID = rec.Pick(r, weirdIDs) + fmt.Sprint(i)
					b.Label = "odd_id"
				}
			}
		}
		if k == 2 && b.Label != "valid" {
			b.Label = "malformed_ids"
		}
	}
	if b.Label == "over_limit" && r.Chance(1, 3) && len(b.Items) >= 2 {
		b.Items[1].ID = b.Items[0].ID // over the limit AND a duplicate: the limit is reported
		b.Label = "over_limit_and_dup"
	}
	return b
}

func runScenario(ctx context.Context, w *rec.Writer, r *rec.Rand, s *scen.Scenario, nb int) {
	x, err := newSc(ctx, s)
	if err != nil {
		if errors.Is(err, scen.ErrModelRejected) {
			w.Stat("models_rejected", 1)
			return
		}
		panic(err)
	}
	defer x.close()
	w.Stat("models_accepted", 1)
	w.Stat("shape_"+s.Shape, 1)
	g := newBgen(r, s)
	for i := 0; i < nb; i++ {
		mode := "cmd"
		if i == nb-1 {
			mode = "api"
		}
		x.runBatch(ctx, w, g.batch(mode))
	}
}

func main() {
	o := rec.ParseFlags()
	w := rec.NewWriter(o.Out)
	defer w.Close()
	ctx := context.Background()
	if o.Replay != "" {
		f, err := os.Open(o.Replay)
		if err != nil {
			panic(err)
		}
		defer f.Close()
		scn := bufio.NewScanner(f)
		scn.Buffer(make([]byte, 1<<20), 1<<26)
		for scn.Scan() {
			var d struct {
				Scenario *scen.Scenario `json:"scenario"`
				Batch    *Batch         `json:"batch"`
			}
			if json.Unmarshal(scn.Bytes(), &d) != nil || d.Scenario == nil || d.Batch == nil {
				continue
			}
			x, err := newSc(ctx, d.Scenario)
			if err != nil {
				continue
			}
			x.runBatch(ctx, w, *d.Batch)
			x.close()
		}
		return
	}
	r := rec.NewRand(o.Seed)
	nb := 4
	for i := 0; i < o.N; i++ {
		rr := r.Fork()
		s := scen.Generate(rr, scen.DefaultOpts())
		if len(s.Conds) == 0 && rr.Chance(1, 2) { // contexts only matter through conditions: draw again
			s = scen.Generate(rr, scen.DefaultOpts())
		}
		runScenario(ctx, w, rr, s, nb)
	}
}
