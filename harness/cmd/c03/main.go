//go:build verif

// Driver for C03: every request (object, wildcard and userset subjects) of generated scenarios
// goes through
//   - the default engine (commands.CheckQuery, planner forced to "default"),
//   - the weighted-graph engine commands.CheckQueryV2 with each strategy forced in turn
//     (default / weight2 / recursive), without fallback,
//   - commands.CheckQueryV2 WITH the v1 fallback (both optimised strategies preferred),
//   - the real breaking-change detector (v2breaking.CheckReason, CheckExclusionReason,
//     CheckReasonFromV2Error) and the real terminal-error classification
//     (commands.IsV2CheckTerminalError on the raw and on the server-mapped error),
//   - for the interesting requests and a sample of the rest: the real Server.Check with the
//     experimental flag `weighted_graph_check` (final answer, fallback log, breaking-change log).
//
// One record per scenario; the oracle evaluates the C03 contract against the reference
// semantics and compares detector / classification / server glue with their Coq models.
package main

import (
	"bufio"
	"context"
	"encoding/json"
	"errors"
	"fmt"
	"os"
	"path/filepath"
	"sort"
	"strings"
	"sync"
	"time"

	openfgav1 "github.com/openfga/api/proto/openfga/v1"
	authzGraph "github.com/openfga/language/pkg/go/graph"
	"github.com/pressly/goose/v3"
	"go.uber.org/zap"
	"google.golang.org/grpc/status"

	"github.com/openfga/openfga/assets"

	"github.com/openfga/openfga/internal/check"
	"github.com/openfga/openfga/internal/condition"
	"github.com/openfga/openfga/internal/graph"
	"github.com/openfga/openfga/internal/modelgraph"
	"github.com/openfga/openfga/internal/verifharness/lib/rec"
	"github.com/openfga/openfga/internal/verifharness/lib/scen"
	"github.com/openfga/openfga/pkg/logger"
	"github.com/openfga/openfga/pkg/server"
	"github.com/openfga/openfga/pkg/server/commands"
	"github.com/openfga/openfga/pkg/server/commands/v2breaking"
	serverconfig "github.com/openfga/openfga/pkg/server/config"
	"github.com/openfga/openfga/pkg/storage"
	"github.com/openfga/openfga/pkg/storage/sqlcommon"
	"github.com/openfga/openfga/pkg/storage/sqlite"
	"github.com/openfga/openfga/pkg/tuple"
)

const maxDepth = 25

// Outcome classes shared by every engine configuration (the oracle sees these numbers).
const (
	cAllowed     = 0
	cDenied      = 1
	cValidation  = 10 // check.ErrValidation
	cInvalidUser = 11 // check.ErrInvalidUser
	cInvalidTup  = 12 // *tuple.InvalidTupleError (contextual tuple)
	cUsersetExcl = 13 // check.ErrUsersetInvalidRequest
	cWildExcl    = 14 // check.ErrWildcardInvalidRequest
	cPanic       = 15 // check.ErrPanicRequest
	cGraph       = 16 // modelgraph.ErrGraphError
	cCond        = 17 // condition.ErrEvaluationFailed
	cTimeout     = 18
	cOther       = 19
	cModel       = 20 // weighted graph could not be built (modelgraph.ErrInvalidModel)
	cParams      = 21 // validateCheckCommandParams
	cDepth       = 22 // v1 only: resolution depth exceeded
	cV1Invalid   = 23 // v1 only: request rejected by validateCheckRequest
)

func className(c int) string {
	switch c {
	case cAllowed:
		return "allowed"
	case cDenied:
		return "denied"
	case cValidation:
		return "err_validation"
	case cInvalidUser:
		return "err_invalid_user"
	case cInvalidTup:
		return "err_invalid_tuple"
	case cUsersetExcl:
		return "err_userset_exclusion"
	case cWildExcl:
		return "err_wildcard_exclusion"
	case cPanic:
		return "err_panic_request"
	case cGraph:
		return "err_graph"
	case cCond:
		return "err_condition"
	case cTimeout:
		return "timeout"
	case cModel:
		return "err_invalid_model"
	case cParams:
		return "err_params"
	case cDepth:
		return "err_depth"
	case cV1Invalid:
		return "invalid_request"
	}
	return "err_other"
}

func classify(res *commands.CheckResult, err error) int {
	if err == nil {
		if res != nil && res.Allowed {
			return cAllowed
		}
		return cDenied
	}
	var ite *tuple.InvalidTupleError
	var c1 *commands.InvalidRelationError
	var c2 *commands.InvalidTupleError
	var c3 *commands.InvalidContextError
	switch {
	case errors.Is(err, check.ErrUsersetInvalidRequest):
		return cUsersetExcl
	case errors.Is(err, check.ErrWildcardInvalidRequest):
		return cWildExcl
	case errors.Is(err, check.ErrValidation) && !errors.As(err, &ite):
		return cValidation
	case errors.Is(err, check.ErrInvalidUser):
		return cInvalidUser
	case errors.As(err, &ite):
		return cInvalidTup
	case errors.As(err, &c1), errors.As(err, &c2), errors.As(err, &c3):
		return cV1Invalid
	case errors.Is(err, condition.ErrEvaluationFailed):
		return cCond
	case errors.Is(err, check.ErrPanicRequest):
		return cPanic
	case errors.Is(err, modelgraph.ErrGraphError):
		return cGraph
	case errors.Is(err, graph.ErrResolutionDepthExceeded):
		return cDepth
	case errors.Is(err, context.DeadlineExceeded), errors.Is(err, context.Canceled):
		return cTimeout
	case errors.Is(err, modelgraph.ErrInvalidModel):
		return cModel
	}
	if st, ok := status.FromError(err); ok && openfgav1.ErrorCode(st.Code()) == openfgav1.ErrorCode_validation_error {
		return cParams
	}
	return cOther
}

func v1Class(out int) int {
	switch out {
	case scen.OutAllowed:
		return cAllowed
	case scen.OutDenied, scen.OutDeniedCy:
		return cDenied
	case scen.OutErrCond:
		return cCond
	case scen.OutErrDepth:
		return cDepth
	case scen.OutTimeout:
		return cTimeout
	case scen.OutInvalid:
		return cV1Invalid
	}
	return cOther
}

func reasonCode(s string) int {
	switch s {
	case "":
		return 0
	case v2breaking.ReasonSelfReferentialUserset:
		return 1
	case v2breaking.ReasonAliasUserset:
		return 2
	case v2breaking.ReasonComputedUsersetSelfObj:
		return 3
	case v2breaking.ReasonTTUUserset:
		return 4
	case v2breaking.ReasonUsersetWithExclusion:
		return 5
	case v2breaking.ReasonWildcardWithExclusion:
		return 6
	}
	return 7
}

var reasonNames = []string{"none", "self_referential_userset", "alias_userset", "computed_userset_self_object", "ttu_userset", "userset_with_exclusion", "wildcard_with_exclusion", "unknown"}

// ---- capturing logger (only Warn lines matter) -------------------------------------------------

type capLogger struct {
	mu       sync.Mutex
	fallback int
	reasons  []string
}

func (l *capLogger) reset() { l.mu.Lock(); l.fallback = 0; l.reasons = nil; l.mu.Unlock() }
func (l *capLogger) warn(msg string, fields []zap.Field) {
	l.mu.Lock()
	defer l.mu.Unlock()
	switch msg {
	case "Weighted graph check failed, falling back":
		l.fallback++
	case "potential v2 Check resolution breaking change":
		for _, f := range fields {
			if f.Key == "reason" {
				l.reasons = append(l.reasons, f.String)
			}
		}
	}
}
func (l *capLogger) Debug(string, ...zap.Field)                             {}
func (l *capLogger) Info(string, ...zap.Field)                              {}
func (l *capLogger) Warn(m string, f ...zap.Field)                          { l.warn(m, f) }
func (l *capLogger) Error(string, ...zap.Field)                             {}
func (l *capLogger) Panic(string, ...zap.Field)                             {}
func (l *capLogger) Fatal(string, ...zap.Field)                             {}
func (l *capLogger) With(...zap.Field) logger.Logger                        { return l }
func (l *capLogger) DebugWithContext(context.Context, string, ...zap.Field) {}
func (l *capLogger) InfoWithContext(context.Context, string, ...zap.Field)  {}
func (l *capLogger) WarnWithContext(_ context.Context, m string, f ...zap.Field) {
	l.warn(m, f)
}
func (l *capLogger) ErrorWithContext(context.Context, string, ...zap.Field) {}
func (l *capLogger) PanicWithContext(context.Context, string, ...zap.Field) {}
func (l *capLogger) FatalWithContext(context.Context, string, ...zap.Field) {}

var _ logger.Logger = (*capLogger)(nil)

// ---- one scenario ------------------------------------------------------------------------------

type runOpts struct {
	Backend  string   `json:"backend"` // memory | sqlite
	Subjects []string `json:"subjects"`
	Limit    int      `json:"limit"`  // v2 concurrency limit
	Sample   int      `json:"sample"` // server-level run for 1 in Sample uninteresting requests
	Planned  bool        `json:"planned"` // Faults / Seqs below were chosen (replays reuse them)
	Faults   []faultPlan `json:"faults,omitempty"`
	Seqs     []seqPlan   `json:"seqs,omitempty"`
}

var strategies = [][]string{{"default"}, {"weight2"}, {"recursive"}}

// ---- sqlite backend: one database per driver run (created offline with the repository's own
// migrations), one store per scenario ------------------------------------------------------------

type noClose struct{ storage.OpenFGADatastore }

func (noClose) Close() {}

var (
	sqliteDS  storage.OpenFGADatastore
	sqliteDir string
)

func sqliteBackend() storage.OpenFGADatastore {
	if sqliteDS != nil {
		return noClose{sqliteDS}
	}
	dir, err := os.MkdirTemp("", "c03-sqlite-*")
	if err != nil {
		panic(err)
	}
	sqliteDir = dir
	goose.SetLogger(goose.NopLogger())
	goose.SetBaseFS(assets.EmbedMigrations)
	uri := fmt.Sprintf("file:%s?_pragma=journal_mode(WAL)&_pragma=busy_timeout(5000)&_pragma=synchronous(NORMAL)", filepath.Join(dir, "database.db"))
	db, err := goose.OpenDBWithDriver("sqlite", uri)
	if err != nil {
		panic(err)
	}
	if err := goose.Up(db, assets.SqliteMigrationDir); err != nil {
		panic(err)
	}
	if err := db.Close(); err != nil {
		panic(err)
	}
	ds, err := sqlite.New(uri, sqlcommon.NewConfig())
	if err != nil {
		panic(err)
	}
	sqliteDS = ds
	return noClose{ds}
}

func sqliteCleanup() {
	if sqliteDS != nil {
		sqliteDS.Close()
	}
	if sqliteDir != "" {
		os.RemoveAll(sqliteDir)
	}
}

func runScenario(ctx context.Context, w *rec.Writer, r *rec.Rand, s *scen.Scenario, ro *runOpts) {
	if ro.Backend == "" {
		ro.Backend = "memory"
		if r.Chance(1, 10) {
			ro.Backend = "sqlite"
		}
	}
	var env *scen.Env
	var err error
	if ro.Backend == "sqlite" {
		env, err = scen.NewEnvOn(ctx, sqliteBackend(), s)
	} else {
		env, err = scen.NewEnv(ctx, s)
	}
	if err != nil {
		if errors.Is(err, scen.ErrModelRejected) {
			w.Stat("models_rejected", 1)
			return
		}
		panic(err)
	}
	defer env.Close()
	w.Stat("models_accepted", 1)
	w.Stat("backend_"+ro.Backend, 1)
	w.Stat("shape_"+s.Shape, 1)
	in := scen.NewIntern()
	model := in.Model(s)
	conds := in.Conds(s)
	var tvs []rec.V
	for _, t := range s.Tuples {
		tvs = append(tvs, in.Tuple(t, env.CEval(ctx, t)))
	}
	w.Stat("tuples", len(s.Tuples))
	if ro.Subjects == nil {
		ro.Subjects = s.C03Subjects(r, 8)
		ro.Limit = rec.Pick(r, []int{1, 2, 10})
		ro.Sample = 6
	}
	objects := s.Objects(ro.Subjects...)
	atoms := in.Atoms(s, objects)

	// engines
	v1resolver, closer := scen.Resolver(scen.NewForcedPlanner("default"), maxDepth)
	defer closer()
	v1cmd := commands.NewCheckCommand(env.DS, v1resolver, env.TS)
	mg, mgErr := modelgraph.New(env.Model)
	if mgErr != nil {
		w.Stat("weighted_graph_rejected", 1)
	}
	planners := make([]*scen.ForcedPlanner, len(strategies))
	v2 := make([]*commands.CheckQueryV2, len(strategies))
	var v2fb *commands.CheckQueryV2
	fbPlanner := scen.NewForcedPlanner("weight2", "recursive")
	if mgErr == nil {
		for i, st := range strategies {
			planners[i] = scen.NewForcedPlanner(st...)
			v2[i] = commands.NewCheckQuery(
				commands.WithCheckQueryV2Datastore(env.DS),
				commands.WithCheckQueryV2Model(mg),
				commands.WithCheckQueryV2Planner(planners[i]),
				commands.WithCheckQueryV2ConcurrencyLimit(ro.Limit),
				commands.WithCheckQueryV2UpstreamTimeout(10*time.Second),
			)
		}
		v2fb = commands.NewCheckQuery(
			commands.WithCheckQueryV2Datastore(env.DS),
			commands.WithCheckQueryV2Model(mg),
			commands.WithCheckQueryV2Planner(fbPlanner),
			commands.WithCheckQueryV2ConcurrencyLimit(ro.Limit),
			commands.WithCheckQueryV2UpstreamTimeout(10*time.Second),
			commands.WithCheckQueryV2Fallback(v1cmd),
		)
	}
	// userset edges the weighted graph marks recursive / part of a tuple cycle (trusted input of
	// the oracle's semantics variants: edge and weight semantics of openfga/language are not re-derived)
	var cycs, cyct []string
	if mgErr == nil {
		for _, edges := range mg.GetEdges() {
			for _, e := range edges {
				if !e.IsPartOfTupleCycle() && e.GetRecursiveRelation() == "" {
					continue
				}
				if e.GetEdgeType() == authzGraph.DirectEdge && e.GetTo().GetNodeType() == authzGraph.SpecificTypeAndRelation {
					cycs = append(cycs, e.GetRelationDefinition()+"|"+e.GetTo().GetUniqueLabel())
				}
				if e.GetEdgeType() == authzGraph.TTUEdge {
					cyct = append(cyct, e.GetRelationDefinition()+"|"+e.GetTo().GetUniqueLabel())
				}
			}
		}
		sort.Strings(cycs)
		sort.Strings(cyct)
	}
	encEdges := func(l []string) []rec.V {
		var out []rec.V
		for i, c := range l {
			if i > 0 && l[i-1] == c {
				continue
			}
			parts := strings.SplitN(c, "|", 2)
			dt, dr := tuple.SplitObjectRelation(parts[0])
			ut, ur := tuple.SplitObjectRelation(parts[1])
			out = append(out, rec.L(rec.I(in.T(dt)), rec.I(in.R(dr)), rec.I(in.T(ut)), rec.I(in.R(ur))))
		}
		return out
	}
	cycv, cyctv := encEdges(cycs), encEdges(cyct)
	w.Stat("cyclic_userset_edges", len(cycv))
	w.Stat("cyclic_ttu_edges", len(cyctv))
	capl := &capLogger{}
	srv := server.MustNewServerWithOpts(
		server.WithDatastore(env.DS),
		server.WithLogger(capl),
		server.WithExperimentals(serverconfig.ExperimentalWeightedGraphCheck),
		server.WithResolveNodeLimit(maxDepth),
	)
	defer srv.Close()

	var svs []rec.V
	var obsList []reqObs
	obsMap := map[string]reqObs{}
	for _, sub := range ro.Subjects {
		var pxs []rec.V
		for _, p := range env.PathX(sub) {
			pxs = append(pxs, rec.L(rec.I(in.T(p[0])), rec.I(in.R(p[1]))))
		}
		kind := "object"
		if tuple.IsObjectRelation(sub) {
			kind = "userset"
		} else if tuple.IsTypedWildcard(sub) {
			kind = "wildcard"
		}
		var res []rec.V
		for _, o := range objects {
			ot, _ := scen.SplitObj(o)
			td := s.Type(ot)
			if td == nil {
				continue
			}
			for _, rd := range td.Rels {
				tk := &openfgav1.CheckRequestTupleKey{Object: o, Relation: rd.Name, User: sub}
				params := &commands.CheckCommandParams{StoreID: env.StoreID, TupleKey: tk, Context: scen.Struct(s.ReqCtx)}
				cctx, cancel := context.WithTimeout(ctx, 20*time.Second)
				// default engine
				out1, _ := env.Check(cctx, v1resolver, o, rd.Name, sub, nil)
				v1c := v1Class(out1)
				// weighted-graph engine, each strategy, no fallback
				v2c := []int{cModel, cModel, cModel}
				termRaw, termConv, rsnErr := 2, 2, 0
				fbFinal, fbTaken := cModel, 0
				if mgErr == nil {
					for i := range strategies {
						r2, e2 := v2[i].Execute(cctx, params)
						v2c[i] = classify(r2, e2)
						if i == 0 && e2 != nil {
							termRaw, termConv = 0, 0
							if commands.IsV2CheckTerminalError(e2) {
								termRaw = 1
							}
							if commands.IsV2CheckTerminalError(commands.CheckCommandErrorToServerError(e2)) {
								termConv = 1
							}
							rsnErr = reasonCode(v2breaking.CheckReasonFromV2Error(e2))
						}
					}
					before := v2fb.FallbackCount()
					r3, e3 := v2fb.Execute(cctx, params)
					fbFinal = classify(r3, e3)
					fbTaken = v2fb.FallbackCount() - before
				}
				cancel()
				// the real detector
				rsnCheck := reasonCode(v2breaking.CheckReason(env.TS, tk))
				rsnExcl := reasonCode(v2breaking.CheckExclusionReason(env.TS, tk))
				// server level
				interesting := v1c != v2c[0] || v2c[0] != v2c[1] || v2c[0] != v2c[2] || v2c[0] >= 10 || rsnCheck != 0 || rsnExcl != 0 || fbTaken != 0
				srvFinal, srvReason, srvFB := 9, 9, 9
				if interesting || r.Intn(ro.Sample) == 0 {
					capl.reset()
					sctx, scancel := context.WithTimeout(ctx, 20*time.Second)
					resp, serr := srv.Check(sctx, &openfgav1.CheckRequest{
						StoreId: env.StoreID, AuthorizationModelId: env.Model.GetId(), TupleKey: tk, Context: scen.Struct(s.ReqCtx)})
					scancel()
					switch {
					case serr == nil && resp.GetAllowed():
						srvFinal = 0
					case serr == nil:
						srvFinal = 1
					default:
						srvFinal = 3
						if st, ok := status.FromError(serr); ok && openfgav1.ErrorCode(st.Code()) == openfgav1.ErrorCode_validation_error {
							srvFinal = 2
						}
					}
					capl.mu.Lock()
					srvFB = capl.fallback
					switch len(capl.reasons) {
					case 0:
						srvReason = 0
					case 1:
						srvReason = reasonCode(capl.reasons[0])
					default:
						srvReason = 8 // more than one breaking-change line for one request
					}
					capl.mu.Unlock()
					w.Stat("server_level_requests", 1)
					if srvFB > 0 {
						w.Stat("server_fallbacks", 1)
					}
					w.Stat("server_reason_"+reasonNames[min(srvReason, 7)], 1)
				}
				w.Stat("requests", 1)
				w.Stat("requests_"+kind, 1)
				w.Stat("v1_"+className(v1c), 1)
				w.Stat("v2_"+className(v2c[0]), 1)
				if v1c < 10 && v2c[0] < 10 && v1c != v2c[0] {
					w.Stat("v1_ne_v2_"+kind, 1)
					if rsnCheck != 0 {
						w.Stat("v1_ne_v2_with_reason_"+kind, 1)
					}
				}
				if v2c[0] != v2c[1] || v2c[0] != v2c[2] {
					w.Stat("strategies_disagree", 1)
				}
				if fbTaken != 0 {
					w.Stat("fallback_taken_"+kind, 1)
				}
				w.Stat("detector_check_"+reasonNames[rsnCheck], 1)
				w.Stat("detector_exclusion_"+reasonNames[rsnExcl], 1)
				if v1c != cV1Invalid && v1c != cTimeout {
					ob := reqObs{Obj: o, Rel: rd.Name, User: sub, Kind: kind, V1: v1c, V2: [3]int{v2c[0], v2c[1], v2c[2]}}
					obsList = append(obsList, ob)
					obsMap[o+"#"+rd.Name+"@"+sub] = ob
				}
				a, b := in.Obj(o)
				res = append(res, rec.L(a, b, rec.I(in.R(rd.Name)), rec.I(v1c), rec.I(out1),
					rec.I(v2c[0]), rec.I(v2c[1]), rec.I(v2c[2]), rec.I(fbFinal), rec.I(fbTaken),
					rec.I(rsnCheck), rec.I(rsnExcl), rec.I(rsnErr), rec.I(termRaw), rec.I(termConv),
					rec.I(srvFinal), rec.I(srvReason), rec.I(srvFB)))
			}
		}
		svs = append(svs, rec.L(in.Subject(sub), rec.L(pxs...), rec.L(res...)))
	}
	for i, p := range planners {
		if p == nil {
			continue
		}
		for name, n := range p.Seen {
			w.Stat("forced_"+strategies[i][0]+"_selected_"+name, n)
		}
	}
	for name, n := range fbPlanner.Seen {
		w.Stat("fallback_variant_selected_"+name, n)
	}
	// fault injection and cached mode (faults.go)
	var faultv, cachedv []rec.V
	if mgErr == nil {
		if !ro.Planned {
			ro.Planned = true
			if len(cyctv) < 2 {
				ro.Faults = planFaults(ctx, r, env, s, mg, ro.Limit, obsList)
			}
			if len(cycv) == 0 && len(cyctv) == 0 {
				ro.Seqs = planSeqs(r, s, obsList)
			}
		}
		faultv = runFaults(ctx, w, in, env, s, mg, ro.Limit, ro.Faults, obsMap)
		cachedv = runSeqs(ctx, w, in, env, s, mg, ro.Limit, ro.Seqs, obsMap)
	}
	mgok := 1
	if mgErr != nil {
		mgok = 0
	}
	backend := 0
	if ro.Backend == "sqlite" {
		backend = 1
	}
	w.Case(map[string]any{"scenario": s, "opts": ro, "text": s.String(),
		"names": map[string]any{"t": in.TypeNames, "r": in.RelNames, "i": in.IDNames}},
		rec.I(1), model, conds, rec.L(tvs...), atoms, rec.I(maxDepth), rec.I(mgok), rec.I(backend), rec.L(cycv...), rec.L(cyctv...), rec.L(svs...), rec.L(faultv...), rec.L(cachedv...))
}

func main() {
	o := rec.ParseFlags()
	w := rec.NewWriter(o.Out)
	defer w.Close()
	defer sqliteCleanup()
	ctx := context.Background()
	if o.Replay != "" {
		f, err := os.Open(o.Replay)
		if err != nil {
			panic(err)
		}
		defer f.Close()
		sc := bufio.NewScanner(f)
		sc.Buffer(make([]byte, 1<<20), 1<<26)
		for sc.Scan() {
			var d struct {
				Scenario *scen.Scenario `json:"scenario"`
				Opts     *runOpts       `json:"opts"`
			}
			if json.Unmarshal(sc.Bytes(), &d) != nil || d.Scenario == nil {
				continue
			}
			if d.Opts == nil || d.Opts.Subjects == nil {
				d.Opts = &runOpts{}
			}
			if d.Opts.Limit == 0 {
				d.Opts.Limit = 10
			}
			if d.Opts.Sample == 0 {
				d.Opts.Sample = 1
			}
			runScenario(ctx, w, rec.NewRand(1), d.Scenario, d.Opts)
		}
		return
	}
	r := rec.NewRand(o.Seed)
	for i := 0; i < o.N; i++ {
		rr := r.Fork()
		var s *scen.Scenario
		if rr.Chance(1, 2) {
			s = scen.C03Shape(rr, -1)
		} else {
			s = scen.Generate(rr, scen.DefaultOpts())
		}
		runScenario(ctx, w, rr, s, &runOpts{})
	}
}
