//go:build verif

// Two extra modes of the C03 driver, both small (a handful of requests per scenario):
//
//   - fault injection: a datastore wrapper whose iterators fail with a non-cancellation error
//     after delivering k tuples on ONE chosen read (identified by operation + filter), k swept
//     0..n where n is the number of tuples the healthy run consumed from that read; the
//     weighted-graph engine runs with a bottom-up strategy forced (weight2 / recursive), without
//     fallback.  Property: under an injected read error the answer is an error or a correct
//     decision, never a wrong decision.
//   - cached mode: the weighted-graph engine with the check query cache ENABLED (fresh cache per
//     sequence) on sequences of 2-6 requests over one (object, user) with different relations and
//     repeats.  Property: same decision as the uncached weighted-graph run.  Only on scenarios
//     whose graph has no recursive / tuple-cycle edge (the shared visited set makes cached edge
//     results request-dependent there: C08 finding v2_edge_cache_visited, C08's subject).
package main

import (
	"context"
	"errors"
	"fmt"
	"os"
	"runtime"
	"sort"
	"strings"
	"sync"
	"time"

	openfgav1 "github.com/openfga/api/proto/openfga/v1"

	"github.com/openfga/openfga/internal/modelgraph"
	"github.com/openfga/openfga/internal/verifharness/lib/rec"
	"github.com/openfga/openfga/internal/verifharness/lib/scen"
	"github.com/openfga/openfga/pkg/server/commands"
	"github.com/openfga/openfga/pkg/storage"
)

// Fault runs use the server's default breadth limit.  A failing object-side read (ReadUsersetTuples
// / Read) consumed through iterator.ToChannel by Weight2.execute / Recursive.execute makes the
// unchanged engine spin until the request deadline (finding v2_read_error_hang): ToChannel keeps
// polling the failed iterator and sending its error, the consumer keeps `continue`-ing.  The
// driver records how often the failed iterator was polled again (the signature of that loop).
const faultLimit = 10

var errInjected = errors.New("verif: injected datastore failure in the middle of a result stream")

type faultDS struct {
	storage.RelationshipTupleReader
	mu     sync.Mutex
	target string         // "" = only count
	k      int            // tuples delivered before the failure
	counts map[string]int // key -> tuples consumed (counting mode)
	fired  bool
	polls  int // Next / Head calls that returned the injected error (a failed stream stays failed)
}

func (d *faultDS) wrap(key string, it storage.TupleIterator, err error) (storage.TupleIterator, error) {
	if err != nil {
		return it, err
	}
	d.mu.Lock()
	if _, ok := d.counts[key]; !ok {
		d.counts[key] = 0
	}
	d.mu.Unlock()
	return &faultIter{TupleIterator: it, d: d, key: key}, nil
}

func (d *faultDS) Read(ctx context.Context, store string, f storage.ReadFilter, o storage.ReadOptions) (storage.TupleIterator, error) {
	it, err := d.RelationshipTupleReader.Read(ctx, store, f, o)
	return d.wrap("R|"+f.Object+"|"+f.Relation+"|"+f.User, it, err)
}

func (d *faultDS) ReadUsersetTuples(ctx context.Context, store string, f storage.ReadUsersetTuplesFilter, o storage.ReadUsersetTuplesOptions) (storage.TupleIterator, error) {
	var ts []string
	for _, r := range f.AllowedUserTypeRestrictions {
		x := r.GetType() + "#" + r.GetRelation()
		if r.GetWildcard() != nil {
			x = r.GetType() + ":*"
		}
		ts = append(ts, x)
	}
	it, err := d.RelationshipTupleReader.ReadUsersetTuples(ctx, store, f, o)
	return d.wrap("U|"+f.Object+"|"+f.Relation+"|"+strings.Join(ts, ","), it, err)
}

func (d *faultDS) ReadStartingWithUser(ctx context.Context, store string, f storage.ReadStartingWithUserFilter, o storage.ReadStartingWithUserOptions) (storage.TupleIterator, error) {
	var us []string
	for _, u := range f.UserFilter {
		x := u.GetObject()
		if u.GetRelation() != "" {
			x += "#" + u.GetRelation()
		}
		us = append(us, x)
	}
	it, err := d.RelationshipTupleReader.ReadStartingWithUser(ctx, store, f, o)
	return d.wrap("S|"+f.ObjectType+"|"+f.Relation+"|"+strings.Join(us, ","), it, err)
}

type faultIter struct {
	storage.TupleIterator
	d    *faultDS
	key  string
	mu      sync.Mutex
	seen    int
	stopped bool
}

// Stop: as the storage.Iterator contract says, Next returns ErrIteratorDone afterwards.
func (i *faultIter) Stop() {
	i.mu.Lock()
	i.stopped = true
	i.mu.Unlock()
	i.TupleIterator.Stop()
}

func (i *faultIter) fail() bool {
	if i.d.target != "" && i.d.target == i.key && i.seen >= i.d.k {
		i.d.mu.Lock()
		i.d.fired = true
		if i.d.polls < 1000000 {
			i.d.polls++
		}
		i.d.mu.Unlock()
		return true
	}
	return false
}

func (i *faultIter) Next(ctx context.Context) (*openfgav1.Tuple, error) {
	i.mu.Lock()
	defer i.mu.Unlock()
	if i.stopped {
		return nil, storage.ErrIteratorDone
	}
	if i.fail() {
		return nil, errInjected
	}
	t, err := i.TupleIterator.Next(ctx)
	if err == nil {
		i.seen++
		i.d.mu.Lock()
		if i.seen > i.d.counts[i.key] {
			i.d.counts[i.key] = i.seen
		}
		i.d.mu.Unlock()
	}
	return t, err
}

func (i *faultIter) Head(ctx context.Context) (*openfgav1.Tuple, error) {
	i.mu.Lock()
	defer i.mu.Unlock()
	if i.stopped {
		return nil, storage.ErrIteratorDone
	}
	if i.fail() {
		return nil, errInjected
	}
	return i.TupleIterator.Head(ctx)
}

// what the main loop observed for one request
type reqObs struct {
	Obj, Rel, User string
	Kind           string
	V1             int
	V2             [3]int
}

type faultPlan struct {
	Obj      string `json:"obj"`
	Rel      string `json:"rel"`
	User     string `json:"user"`
	Strategy int    `json:"strategy"` // 1 weight2, 2 recursive
	Key      string `json:"key"`      // the read that fails
	N        int    `json:"n"`        // tuples the healthy run consumed from it
}

type seqPlan struct {
	Obj       string   `json:"obj"`
	User      string   `json:"user"`
	Rels      []string `json:"rels"`
	Optimised bool     `json:"optimised"` // planner prefers weight2 / recursive
}

func v2With(ds storage.RelationshipTupleReader, mg *modelgraph.AuthorizationModelGraph, limit int, prefer []string, extra ...commands.CheckQueryV2Option) *commands.CheckQueryV2 {
	opts := []commands.CheckQueryV2Option{
		commands.WithCheckQueryV2Datastore(ds),
		commands.WithCheckQueryV2Model(mg),
		commands.WithCheckQueryV2Planner(scen.NewForcedPlanner(prefer...)),
		commands.WithCheckQueryV2ConcurrencyLimit(limit),
		commands.WithCheckQueryV2UpstreamTimeout(10 * time.Second),
	}
	return commands.NewCheckQuery(append(opts, extra...)...)
}

func params(env *scen.Env, s *scen.Scenario, obj, rel, user string) *commands.CheckCommandParams {
	return &commands.CheckCommandParams{StoreID: env.StoreID,
		TupleKey: &openfgav1.CheckRequestTupleKey{Object: obj, Relation: rel, User: user}, Context: scen.Struct(s.ReqCtx)}
}

func opCode(key string) int {
	switch key[0] {
	case 'S':
		return 0
	case 'U':
		return 1
	}
	return 2
}

// planFaults chooses requests, runs them once on a counting datastore with each bottom-up strategy
// forced and picks the read that will fail.
func planFaults(ctx context.Context, r *rec.Rand, env *scen.Env, s *scen.Scenario, mg *modelgraph.AuthorizationModelGraph, limit int, obs []reqObs) []faultPlan {
	var yes, no []reqObs
	for _, o := range obs {
		if o.Kind == "userset" || o.V2[0] != o.V2[1] || o.V2[0] != o.V2[2] {
			continue // userset subjects never use a bottom-up strategy; racy requests are skipped
		}
		switch o.V2[0] {
		case cAllowed:
			yes = append(yes, o)
		case cDenied:
			no = append(no, o)
		}
	}
	rec.Shuffle(r, yes)
	rec.Shuffle(r, no)
	if len(yes) > 4 {
		yes = yes[:4]
	}
	if len(no) > 2 {
		no = no[:2]
	}
	var plans []faultPlan
	for _, o := range append(yes, no...) {
		for st := 1; st <= 2; st++ {
			ds := &faultDS{RelationshipTupleReader: env.DS, counts: map[string]int{}}
			q := v2With(ds, mg, faultLimit, strategies[st])
			cctx, cancel := context.WithTimeout(ctx, 20*time.Second)
			_, _ = q.Execute(cctx, params(env, s, o.Obj, o.Rel, o.User))
			cancel()
			// goroutines of the engine may still be draining iterators: snapshot under the lock
			ds.mu.Lock()
			counts := make(map[string]int, len(ds.counts))
			for k, v := range ds.counts {
				counts[k] = v
			}
			ds.mu.Unlock()
			var keys, skeys []string
			for k := range counts {
				keys = append(keys, k)
				if k[0] == 'S' {
					skeys = append(skeys, k)
				}
			}
			if len(keys) == 0 {
				continue
			}
			sort.Strings(keys)
			sort.Strings(skeys)
			key := rec.Pick(r, keys)
			if len(skeys) > 0 && r.Chance(2, 3) {
				key = rec.Pick(r, skeys) // user-side reads feed the bottom-up merges
			}
			n := counts[key]
			if n > 5 {
				n = 5
			}
			plans = append(plans, faultPlan{Obj: o.Obj, Rel: o.Rel, User: o.User, Strategy: st, Key: key, N: n})
		}
	}
	return plans
}

func runFaults(ctx context.Context, w *rec.Writer, in *scen.Intern, env *scen.Env, s *scen.Scenario, mg *modelgraph.AuthorizationModelGraph, limit int, plans []faultPlan, obs map[string]reqObs) []rec.V {
	var out []rec.V
	for _, p := range plans {
		o, ok := obs[p.Obj+"#"+p.Rel+"@"+p.User]
		if !ok {
			continue
		}
		for k := 0; k <= p.N; k++ {
			ds := &faultDS{RelationshipTupleReader: env.DS, counts: map[string]int{}, target: p.Key, k: k}
			q := v2With(ds, mg, faultLimit, strategies[p.Strategy])
			cctx, cancel := context.WithTimeout(ctx, time.Second)
			done := make(chan struct{})
			if f := os.Getenv("C03_HANGDUMP"); f != "" {
				go func(p faultPlan, k int) { // watchdog: goroutine dump WHILE the engine is blocked
					select {
					case <-done:
					case <-time.After(700 * time.Millisecond):
						buf := make([]byte, 1<<22)
						n := runtime.Stack(buf, true)
						_ = os.WriteFile(f, append([]byte(fmt.Sprintf("fault %+v k=%d\n", p, k)), buf[:n]...), 0o644)
					}
				}(p, k)
			}
			res, err := q.Execute(cctx, params(env, s, p.Obj, p.Rel, p.User))
			close(done)
			cancel()
			c := classify(res, err)
			if c == cTimeout {
				w.Stat("fault_run_hung_until_deadline", 1)
			}
			fired := 0
			ds.mu.Lock()
			if ds.fired {
				fired = 1
			}
			polls := ds.polls
			ds.mu.Unlock()
			if polls > 1000 {
				polls = 1000
			}
			w.Stat("fault_runs", 1)
			w.Stat("fault_runs_"+[]string{"rswu", "rut", "read"}[opCode(p.Key)], 1)
			if fired == 1 {
				w.Stat("fault_fired", 1)
				w.Stat("fault_outcome_"+className(c), 1)
			}
			a, b := in.Obj(p.Obj)
			out = append(out, rec.L(a, b, rec.I(in.R(p.Rel)), in.Subject(p.User), rec.I(p.Strategy), rec.I(opCode(p.Key)),
				rec.I(k), rec.I(fired), rec.I(c), rec.I(o.V2[0]), rec.I(o.V2[1]), rec.I(o.V2[2]), rec.I(polls)))
			if c == cTimeout {
				break // every further position of this read hangs the same way: one second each
			}
		}
	}
	return out
}

func planSeqs(r *rec.Rand, s *scen.Scenario, obs []reqObs) []seqPlan {
	type pair struct{ obj, user string }
	seen := map[pair]bool{}
	var pairs []pair
	for _, o := range obs {
		p := pair{o.Obj, o.User}
		if !seen[p] {
			seen[p] = true
			pairs = append(pairs, p)
		}
	}
	rec.Shuffle(r, pairs)
	if len(pairs) > 6 {
		pairs = pairs[:6]
	}
	var out []seqPlan
	for _, p := range pairs {
		ot, _ := scen.SplitObj(p.obj)
		td := s.Type(ot)
		if td == nil || len(td.Rels) < 2 {
			continue
		}
		var rels []string
		for _, rd := range td.Rels {
			rels = append(rels, rd.Name)
		}
		rec.Shuffle(r, rels)
		n := r.Range(2, 6)
		seq := []string{rels[0], rels[1]}
		for len(seq) < n {
			seq = append(seq, rec.Pick(r, rels))
		}
		out = append(out, seqPlan{Obj: p.obj, User: p.user, Rels: seq, Optimised: r.Bool()})
	}
	return out
}

func runSeqs(ctx context.Context, w *rec.Writer, in *scen.Intern, env *scen.Env, s *scen.Scenario, mg *modelgraph.AuthorizationModelGraph, limit int, plans []seqPlan, obs map[string]reqObs) []rec.V {
	var out []rec.V
	for _, p := range plans {
		cache, err := storage.NewInMemoryLRUCache[any](storage.WithMaxCacheSize[any](10000))
		if err != nil {
			panic(err)
		}
		prefer := []string{"default"}
		if p.Optimised {
			prefer = []string{"weight2", "recursive"}
		}
		q := v2With(env.DS, mg, limit, prefer,
			commands.WithCheckQueryV2Cache(cache),
			commands.WithCheckQueryV2QueryCacheEnabled(true),
			commands.WithCheckQueryV2QueryCacheTTL(time.Minute))
		var rs []rec.V
		for _, rel := range p.Rels {
			o, ok := obs[p.Obj+"#"+rel+"@"+p.User]
			if !ok {
				continue
			}
			cctx, cancel := context.WithTimeout(ctx, 20*time.Second)
			res, err := q.Execute(cctx, params(env, s, p.Obj, rel, p.User))
			cancel()
			c := classify(res, err)
			w.Stat("cached_requests", 1)
			if c != o.V2[0] {
				w.Stat("cached_ne_uncached_class", 1)
			}
			rs = append(rs, rec.L(rec.I(in.R(rel)), rec.I(c), rec.I(o.V2[0]), rec.I(o.V2[1]), rec.I(o.V2[2])))
		}
		cache.Stop()
		a, b := in.Obj(p.Obj)
		out = append(out, rec.L(a, b, in.Subject(p.User), rec.L(rs...)))
		w.Stat("cached_sequences", 1)
	}
	return out
}
