//go:build verif

// gen_c10 reads /repo with go/ast and writes coq/Generated/C10Bypass.v: for every method that
// consults a cache (check query cache, iterator caches, shared iterators, weighted-graph edge
// cache) or the cache controller, the CONTROL SKELETON of its body as a small program
//
//	prog ::= PSkip | PEv ev | PSeq2 prog prog | PIfCons "<lhs>" hi lo | PIf a b
//	       | PCall prog | PBlock prog | PBreak n | PReturn
//	ev   ::= CacheGet | CacheSet | CacheDel | Delegate | CtrlCall | Unknown
//
// where PIfCons is the test `<lhs> == ConsistencyPreference_HIGHER_CONSISTENCY` (hi = the branch
// taken by a HIGHER_CONSISTENCY request), PIf any other conditional, PCall an inlined callee or
// closure (its `return` is local), PBlock a loop body / switch (the target of break/continue; a
// loop is abstracted to zero-or-one iteration), Delegate a call of the wrapped reader/resolver.
// Calls on the configured cache field are classified by method name; package-local callees that
// (transitively) touch a cache are inlined with their parameters bound; a composite literal or
// an unresolvable call that receives the cache is an escape (CacheSet resp. Unknown).
// Everything that is not recognised becomes `PEv Unknown` (fail closed): Cache/ConsistencyProofs.v
// proves by computation over this table that no HIGHER_CONSISTENCY path reaches a CacheGet,
// CacheDel, CtrlCall or Unknown, so a reordering or a dropped test in Go breaks the proof.
package main

import (
	"bytes"
	"flag"
	"fmt"
	"go/ast"
	"go/parser"
	"go/printer"
	"go/token"
	"os"
	"path/filepath"
	"sort"
	"strings"
)

func fail(format string, a ...any) {
	fmt.Fprintf(os.Stderr, "gen_c10: "+format+"\n", a...)
	os.Exit(1)
}

func coqStr(s string) string { return "\"" + strings.ReplaceAll(s, "\"", "\"\"") + "\"" }

var fset = token.NewFileSet()

func src(n ast.Node) string {
	var b bytes.Buffer
	if err := printer.Fprint(&b, fset, n); err != nil {
		return "?"
	}
	return strings.Join(strings.Fields(b.String()), " ")
}

// ---- configuration: one unit per anchored file --------------------------------------------------

type unit struct {
	dir       string   // package directory relative to the repo
	files     []string // files whose functions may be inlined
	recv      string   // receiver type of the listed methods ("" = any function)
	roots     []string // methods to list; empty = every exported method of recv in files[0]
	cache     []string // source text of cache-valued selectors, receiver name replaced by $
	cacheKind string   // "lru" (Get/Set/Delete) or "syncmap" (Load/LoadOrStore/CompareAndDelete...)
	delegate  []string // selector prefixes (with $) whose calls are Delegate; "$.name*" allowed
	ctrlOnly  bool     // list every function that calls the cache controller; nothing else
	label     string   // row name prefix
}

var units = []unit{
	{dir: "internal/graph", files: []string{"cached_resolver.go"}, recv: "CachedCheckResolver", roots: []string{"ResolveCheck"},
		cache: []string{"$.cache"}, cacheKind: "lru", delegate: []string{"$.delegate."}, label: "CachedCheckResolver"},
	{dir: "pkg/storage/storagewrappers", files: []string{"cached_datastore.go"}, recv: "CachedDatastore",
		cache: []string{"$.cache"}, cacheKind: "lru", delegate: []string{"$.RelationshipTupleReader."}, label: "CachedDatastore"},
	{dir: "pkg/storage/storagewrappers", files: []string{"cached_reader.go", "iterator_cache.go", "cached_iterators.go"}, recv: "CachedTupleReader",
		cache: []string{"$.cache"}, cacheKind: "lru", delegate: []string{"$.delegate."}, label: "CachedTupleReader"},
	{dir: "pkg/storage/storagewrappers/sharediterator", files: []string{"shared_iterator_datastore.go"}, recv: "IteratorDatastore",
		cache: []string{"$.internalStorage.read", "$.internalStorage.rut", "$.internalStorage.rswu"}, cacheKind: "syncmap",
		delegate: []string{"$.RelationshipTupleReader."}, label: "IteratorDatastore"},
	{dir: "internal/check", files: []string{"check.go"}, recv: "Resolver", roots: []string{"isCached", "ResolveUnionEdges", "ResolveRecursive"},
		cache: []string{"$.cache"}, cacheKind: "lru",
		delegate: []string{"$.ResolveEdge", "$.resolveRecursiveUserset", "$.resolveRecursiveTTU"}, label: "v2.Resolver"},
	{dir: "pkg/server/commands", files: []string{"check_command.go"}, ctrlOnly: true, label: "commands"},
	{dir: "pkg/server/commands", files: []string{"list_objects.go"}, ctrlOnly: true, label: "commands"},
	{dir: "pkg/server", files: []string{"check.go"}, ctrlOnly: true, label: "server"},
	{dir: "pkg/server", files: []string{"batch_check.go"}, ctrlOnly: true, label: "server"},
}

// ---- program terms ------------------------------------------------------------------------------

type P interface{}
type (
	pSkip   struct{}
	pEv     struct{ k string }
	pSeq    struct{ l []P }
	pIfCons struct {
		lhs    string
		hi, lo P
	}
	pIf     struct{ a, b P }
	pCall   struct{ p P }
	pBlock  struct{ p P }
	pBreak  struct{ n int }
	pReturn struct{}
)

func seq(ps ...P) P {
	var out []P
	for _, p := range ps {
		switch x := p.(type) {
		case nil:
		case pSkip:
		case pSeq:
			out = append(out, x.l...)
		default:
			out = append(out, p)
		}
	}
	if len(out) == 0 {
		return pSkip{}
	}
	if len(out) == 1 {
		return out[0]
	}
	return pSeq{out}
}

func isSkip(p P) bool { _, ok := p.(pSkip); return ok }

func mkIf(a, b P) P {
	if isSkip(a) && isSkip(b) {
		return pSkip{}
	}
	return pIf{a, b}
}

func mkCall(p P) P {
	if isSkip(p) {
		return pSkip{}
	}
	if hasNoExit(p) {
		return p
	}
	return pCall{p}
}

func mkBlock(p P) P {
	if isSkip(p) {
		return pSkip{}
	}
	if hasNoExit(p) {
		return p
	}
	return pBlock{p}
}

// hasNoExit: no PReturn / PBreak anywhere (then PCall / PBlock wrappers are the identity)
func hasNoExit(p P) bool {
	switch x := p.(type) {
	case pReturn, pBreak:
		return false
	case pSeq:
		for _, q := range x.l {
			if !hasNoExit(q) {
				return false
			}
		}
	case pIfCons:
		return hasNoExit(x.hi) && hasNoExit(x.lo)
	case pIf:
		return hasNoExit(x.a) && hasNoExit(x.b)
	case pCall:
		return true
	case pBlock:
		return hasNoExit(x.p)
	}
	return true
}

func coq(p P) string {
	switch x := p.(type) {
	case pSkip:
		return "PSkip"
	case pEv:
		return "PEv " + x.k
	case pSeq:
		s := coq(x.l[len(x.l)-1])
		for i := len(x.l) - 2; i >= 0; i-- {
			s = "PSeq2 (" + coq(x.l[i]) + ") (" + s + ")"
		}
		return s
	case pIfCons:
		return "PIfCons " + coqStr(x.lhs) + " (" + coq(x.hi) + ") (" + coq(x.lo) + ")"
	case pIf:
		return "PIf (" + coq(x.a) + ") (" + coq(x.b) + ")"
	case pCall:
		return "PCall (" + coq(x.p) + ")"
	case pBlock:
		return "PBlock (" + coq(x.p) + ")"
	case pBreak:
		return fmt.Sprintf("PBreak %d", x.n)
	case pReturn:
		return "PReturn"
	}
	return "PEv Unknown"
}

// ---- translation --------------------------------------------------------------------------------

const higherConst = "ConsistencyPreference_HIGHER_CONSISTENCY"

type binding struct {
	kind string // "cache" | "closure" | "constest" | "arg" (parameter standing for the caller's expression lhs)
	lit  *ast.FuncLit
	env  *env   // defining environment of a closure
	lhs  string // constest: tested expression
	neg  bool   // constest: identifier is true when NOT higher
}

type env struct {
	u      *unit
	recv   string // receiver identifier of the function being translated
	vars   map[string]*binding
	parent *env
	funcs  map[string]*ast.FuncDecl // package-local functions by name, methods as "Type.name"
	rel    map[string]bool          // functions that (transitively) contain an event
	stack  []string                 // inlining stack (recursion guard)
	blocks []string                 // enclosing breakable constructs: "loop" | "switch" | "func"
	labels map[string]int           // label -> index in blocks of the labelled construct
}

func (e *env) lookup(name string) *binding {
	for x := e; x != nil; x = x.parent {
		if b, ok := x.vars[name]; ok {
			return b
		}
	}
	return nil
}

func (e *env) child() *env {
	return &env{u: e.u, recv: e.recv, vars: map[string]*binding{}, parent: e, funcs: e.funcs, rel: e.rel,
		stack: e.stack, blocks: e.blocks, labels: e.labels}
}

// isCacheExpr: the expression denotes (a handle on) the cache
func (e *env) isCacheExpr(x ast.Expr) bool {
	switch v := x.(type) {
	case *ast.Ident:
		b := e.lookup(v.Name)
		return b != nil && b.kind == "cache"
	case *ast.ParenExpr:
		return e.isCacheExpr(v.X)
	case *ast.SelectorExpr:
		s := src(v)
		for _, c := range e.u.cache {
			if e.recv != "" && s == strings.ReplaceAll(c, "$", e.recv) {
				return true
			}
		}
		// a field `cache` of any other value of this package (cachedIterator.cache, ...)
		if e.u.cacheKind == "lru" && v.Sel.Name == "cache" {
			return true
		}
	}
	return false
}

func (e *env) isDelegateCall(c *ast.CallExpr) bool {
	s := src(c.Fun)
	for _, d := range e.u.delegate {
		if e.recv == "" {
			continue
		}
		if strings.HasPrefix(s, strings.ReplaceAll(d, "$", e.recv)) {
			return true
		}
	}
	return false
}

func cacheMethodEvents(kind, m string) []string {
	if kind == "lru" {
		switch m {
		case "Get":
			return []string{"CacheGet"}
		case "Set":
			return []string{"CacheSet"}
		case "Delete":
			return []string{"CacheDel"}
		case "Stop":
			return []string{}
		}
		return []string{"Unknown"}
	}
	switch m {
	case "Load", "Range":
		return []string{"CacheGet"}
	case "Store":
		return []string{"CacheSet"}
	case "LoadOrStore", "Swap", "CompareAndSwap":
		return []string{"CacheGet", "CacheSet"}
	case "Delete", "CompareAndDelete":
		return []string{"CacheDel"}
	case "LoadAndDelete":
		return []string{"CacheGet", "CacheDel"}
	}
	return []string{"Unknown"}
}

// consTest recognises `<lhs> ==/!= ...HIGHER_CONSISTENCY`, an identifier bound to such a test, or a
// negation of one.  ok=false with mentions=true means: the constant occurs in a shape that is not
// understood (fail closed).
func (e *env) consTest(x ast.Expr) (lhs string, neg bool, ok bool, mentions bool) {
	switch v := x.(type) {
	case *ast.ParenExpr:
		return e.consTest(v.X)
	case *ast.UnaryExpr:
		if v.Op == token.NOT {
			l, n, o, m := e.consTest(v.X)
			return l, !n, o, m
		}
	case *ast.Ident:
		if b := e.lookup(v.Name); b != nil && b.kind == "constest" {
			return b.lhs, b.neg, true, true
		}
		return "", false, false, false
	case *ast.BinaryExpr:
		if v.Op == token.EQL || v.Op == token.NEQ {
			l, r := src(v.X), src(v.Y)
			if strings.HasSuffix(r, higherConst) && !strings.Contains(l, higherConst) {
				return e.argText(v.X, l), v.Op == token.NEQ, true, true
			}
			if strings.HasSuffix(l, higherConst) && !strings.Contains(r, higherConst) {
				return e.argText(v.Y, r), v.Op == token.NEQ, true, true
			}
		}
	}
	return "", false, false, strings.Contains(src(x), higherConst) || e.mentionsConsIdent(x)
}

// argText: a parameter bound at inlining stands for the caller's argument expression
func (e *env) argText(x ast.Expr, text string) string {
	if id, ok := x.(*ast.Ident); ok {
		if b := e.lookup(id.Name); b != nil && b.kind == "arg" {
			return b.lhs
		}
	}
	return text
}

func (e *env) mentionsConsIdent(x ast.Expr) bool {
	found := false
	ast.Inspect(x, func(n ast.Node) bool {
		if id, ok := n.(*ast.Ident); ok {
			if b := e.lookup(id.Name); b != nil && b.kind == "constest" {
				found = true
			}
		}
		return !found
	})
	return found
}

func (e *env) exprs(xs []ast.Expr) P {
	var ps []P
	for _, x := range xs {
		ps = append(ps, e.expr(x))
	}
	return seq(ps...)
}

// expr: the events of evaluating x, in evaluation order
func (e *env) expr(x ast.Expr) P {
	switch v := x.(type) {
	case nil:
		return pSkip{}
	case *ast.Ident, *ast.BasicLit:
		return pSkip{}
	case *ast.ParenExpr:
		return e.expr(v.X)
	case *ast.StarExpr:
		return e.expr(v.X)
	case *ast.UnaryExpr:
		return e.expr(v.X)
	case *ast.TypeAssertExpr:
		return e.expr(v.X)
	case *ast.SelectorExpr:
		return e.expr(v.X)
	case *ast.IndexExpr:
		return seq(e.expr(v.X), e.expr(v.Index))
	case *ast.IndexListExpr:
		return e.expr(v.X)
	case *ast.SliceExpr:
		return seq(e.expr(v.X), e.expr(v.Low), e.expr(v.High), e.expr(v.Max))
	case *ast.KeyValueExpr:
		return e.expr(v.Value)
	case *ast.ArrayType, *ast.MapType, *ast.ChanType, *ast.FuncType, *ast.InterfaceType, *ast.StructType, *ast.Ellipsis:
		return pSkip{}
	case *ast.BinaryExpr:
		if v.Op == token.LAND || v.Op == token.LOR {
			return seq(e.expr(v.X), mkIf(e.expr(v.Y), pSkip{}))
		}
		return seq(e.expr(v.X), e.expr(v.Y))
	case *ast.CompositeLit:
		var ps []P
		esc := false
		for _, el := range v.Elts {
			val := el
			if kv, ok := el.(*ast.KeyValueExpr); ok {
				val = kv.Value
			}
			if e.isCacheExpr(val) {
				esc = true
				continue
			}
			ps = append(ps, e.expr(val))
		}
		if esc {
			// the cache is handed to a value that writes it later (cachedIterator.flush, cachingIterator)
			ps = append(ps, pEv{"CacheSet"})
		}
		return seq(ps...)
	case *ast.FuncLit:
		// a closure that is not bound to a local identifier: it may run from here on
		return e.inlineLit(v, e, nil, nil)
	case *ast.CallExpr:
		return e.call(v)
	}
	return pEv{"Unknown"}
}

func (e *env) call(c *ast.CallExpr) P {
	// conversions and builtins
	if id, ok := c.Fun.(*ast.Ident); ok {
		switch id.Name {
		case "len", "cap", "make", "new", "append", "copy", "delete", "min", "max", "string", "int", "int64", "uint64",
			"uint32", "float64", "panic", "close", "clear":
			return e.exprs(c.Args)
		}
	}
	switch c.Fun.(type) {
	case *ast.ArrayType, *ast.MapType, *ast.ParenExpr, *ast.InterfaceType:
		return e.exprs(c.Args)
	}
	// cache controller
	if sel, ok := c.Fun.(*ast.SelectorExpr); ok && (sel.Sel.Name == "DetermineInvalidationTime" || sel.Sel.Name == "InvalidateIfNeeded") {
		return seq(e.expr(sel.X), e.exprs(c.Args), pEv{"CtrlCall"})
	}
	if e.u.ctrlOnly {
		var ps []P
		if sel, ok := c.Fun.(*ast.SelectorExpr); ok {
			ps = append(ps, e.expr(sel.X))
		} else if fl, ok := c.Fun.(*ast.FuncLit); ok {
			ps = append(ps, e.inlineLit(fl, e, nil, nil))
		}
		ps = append(ps, e.exprs(c.Args))
		return seq(ps...)
	}
	// method of the cache
	if sel, ok := c.Fun.(*ast.SelectorExpr); ok && e.isCacheExpr(sel.X) {
		ps := []P{e.exprs(c.Args)}
		for _, k := range cacheMethodEvents(e.u.cacheKind, sel.Sel.Name) {
			ps = append(ps, pEv{k})
		}
		return seq(ps...)
	}
	// the wrapped reader / resolver
	if e.isDelegateCall(c) {
		return seq(e.exprs(c.Args), pEv{"Delegate"})
	}
	// immediately applied literal
	if fl, ok := c.Fun.(*ast.FuncLit); ok {
		return seq(e.argsNoCache(c), e.inlineLit(fl, e, fl.Type.Params, c.Args))
	}
	// closure variable or function-typed parameter
	if id, ok := c.Fun.(*ast.Ident); ok {
		if b := e.lookup(id.Name); b != nil {
			if b.kind == "closure" {
				return seq(e.argsNoCache(c), b.env.inlineLit(b.lit, e, b.lit.Type.Params, c.Args))
			}
			return seq(e.argsNoCache(c), pEv{"Unknown"})
		}
		if fd, ok := e.funcs[id.Name]; ok {
			return e.inlineDecl(fd, id.Name, "", c)
		}
	}
	// method of the receiver
	if sel, ok := c.Fun.(*ast.SelectorExpr); ok {
		if id, ok := sel.X.(*ast.Ident); ok && e.recv != "" && id.Name == e.recv {
			if fd, ok := e.funcs[e.u.recv+"."+sel.Sel.Name]; ok {
				return e.inlineDecl(fd, e.u.recv+"."+sel.Sel.Name, recvName(fd), c)
			}
		}
	}
	// anything else: a call that cannot be followed.  It must not receive the cache or a closure
	// that touches it.
	var ps []P
	if sel, ok := c.Fun.(*ast.SelectorExpr); ok {
		ps = append(ps, e.expr(sel.X))
	} else {
		ps = append(ps, e.expr(c.Fun))
	}
	for _, a := range c.Args {
		if e.isCacheExpr(a) {
			ps = append(ps, pEv{"Unknown"})
			continue
		}
		if id, ok := a.(*ast.Ident); ok {
			if b := e.lookup(id.Name); b != nil && b.kind == "closure" {
				// a closure handed to foreign code (singleflight.Do, errgroup.Go, ...): it may run from here on
				ps = append(ps, b.env.inlineLit(b.lit, e, nil, nil))
				continue
			}
		}
		ps = append(ps, e.expr(a))
	}
	return seq(ps...)
}

// argsNoCache: events of the arguments (cache handles and closures themselves have none)
func (e *env) argsNoCache(c *ast.CallExpr) P {
	var ps []P
	for _, a := range c.Args {
		if e.isCacheExpr(a) {
			continue
		}
		if _, ok := a.(*ast.FuncLit); ok {
			continue
		}
		ps = append(ps, e.expr(a))
	}
	return seq(ps...)
}

func recvName(fd *ast.FuncDecl) string {
	if fd.Recv != nil && len(fd.Recv.List) == 1 && len(fd.Recv.List[0].Names) == 1 {
		return fd.Recv.List[0].Names[0].Name
	}
	return ""
}

func (e *env) bindParams(ne *env, caller *env, params *ast.FieldList, args []ast.Expr) {
	if params == nil {
		return
	}
	i := 0
	for _, f := range params.List {
		names := f.Names
		if len(names) == 0 {
			i++
			continue
		}
		for _, n := range names {
			if i < len(args) {
				a := args[i]
				if caller.isCacheExpr(a) {
					ne.vars[n.Name] = &binding{kind: "cache"}
				} else if fl, ok := a.(*ast.FuncLit); ok {
					ne.vars[n.Name] = &binding{kind: "closure", lit: fl, env: caller}
				} else if id, ok := a.(*ast.Ident); ok {
					if b := caller.lookup(id.Name); b != nil {
						ne.vars[n.Name] = b
					} else {
						ne.vars[n.Name] = &binding{kind: "arg", lhs: id.Name}
					}
				} else {
					// remember the argument's source text: a consistency test on the parameter is
					// reported as a test on the caller's expression
					ne.vars[n.Name] = &binding{kind: "arg", lhs: src(a)}
				}
			}
			i++
		}
	}
}

func (e *env) inlineDecl(fd *ast.FuncDecl, name, recv string, c *ast.CallExpr) P {
	args := e.argsNoCache(c)
	if !e.rel[name] {
		// the callee touches no cache: it only matters if it is given one
		for _, a := range c.Args {
			if e.isCacheExpr(a) {
				return seq(args, pEv{"Unknown"})
			}
			if id, ok := a.(*ast.Ident); ok {
				if b := e.lookup(id.Name); b != nil && b.kind == "closure" {
					return seq(args, pEv{"Unknown"})
				}
			}
		}
		return args
	}
	for _, s := range e.stack {
		if s == name {
			return seq(args, pEv{"Unknown"}) // recursion
		}
	}
	if len(e.stack) > 8 {
		return seq(args, pEv{"Unknown"})
	}
	ne := &env{u: e.u, recv: recv, vars: map[string]*binding{}, funcs: e.funcs, rel: e.rel,
		stack: append(append([]string{}, e.stack...), name), blocks: []string{"func"}, labels: map[string]int{}}
	e.bindParams(ne, e, fd.Type.Params, c.Args)
	return seq(args, mkCall(ne.block(fd.Body.List)))
}

// inlineLit translates the body of a closure defined in environment e (the receiver of the call),
// called from `caller` with the given arguments.
func (e *env) inlineLit(fl *ast.FuncLit, caller *env, params *ast.FieldList, args []ast.Expr) P {
	key := fmt.Sprintf("lit@%d", fl.Pos())
	for _, s := range caller.stack {
		if s == key {
			return pEv{"Unknown"}
		}
	}
	ne := e.child()
	ne.stack = append(append([]string{}, caller.stack...), key)
	ne.blocks = []string{"func"}
	ne.labels = map[string]int{}
	if params != nil {
		e.bindParams(ne, caller, params, args)
	}
	return mkCall(ne.block(fl.Body.List))
}

func (e *env) block(stmts []ast.Stmt) P {
	ne := e.child()
	var ps []P
	for _, s := range stmts {
		ps = append(ps, ne.stmt(s))
	}
	return seq(ps...)
}

func (e *env) assign(lhs []ast.Expr, rhs []ast.Expr, define bool) P {
	var ps []P
	for i, r := range rhs {
		var l ast.Expr
		if len(lhs) == len(rhs) {
			l = lhs[i]
		}
		lid, _ := l.(*ast.Ident)
		if fl, ok := r.(*ast.FuncLit); ok && lid != nil {
			e.vars[lid.Name] = &binding{kind: "closure", lit: fl, env: e}
			continue
		}
		if lid != nil && e.isCacheExpr(r) {
			e.vars[lid.Name] = &binding{kind: "cache"}
			continue
		}
		if lhsT, neg, ok, mentions := e.consTest(r); ok && lid != nil {
			if _, isIdent := r.(*ast.Ident); !isIdent {
				e.vars[lid.Name] = &binding{kind: "constest", lhs: lhsT, neg: neg}
				continue
			}
		} else if mentions {
			ps = append(ps, pEv{"Unknown"})
			continue
		}
		if l != nil && lid == nil && e.isCacheExpr(r) {
			ps = append(ps, pEv{"CacheSet"}) // the cache is stored into some other value
			continue
		}
		ps = append(ps, e.expr(r))
		if lid != nil && lid.Name != "_" {
			if b := e.lookup(lid.Name); b != nil {
				// a tracked identifier is overwritten by something else
				if define || b.kind == "arg" {
					e.vars[lid.Name] = nil
				} else {
					ps = append(ps, pEv{"Unknown"})
				}
			}
		}
	}
	for _, l := range lhs {
		if _, ok := l.(*ast.Ident); !ok {
			ps = append(ps, e.expr(l))
		}
	}
	return seq(ps...)
}

func (e *env) breakTo(label *ast.Ident, wantLoop bool) P {
	n := len(e.blocks)
	if label != nil {
		idx, ok := e.labels[label.Name]
		if !ok {
			return pEv{"Unknown"}
		}
		return pBreak{n - 1 - idx}
	}
	for i := n - 1; i >= 0; i-- {
		if e.blocks[i] == "func" {
			break
		}
		if !wantLoop || e.blocks[i] == "loop" {
			return pBreak{n - 1 - i}
		}
	}
	return pEv{"Unknown"}
}

func (e *env) cond(c ast.Expr, then P, els P) P {
	if lhs, neg, ok, mentions := e.consTest(c); ok {
		if neg {
			return pIfCons{lhs, els, then}
		}
		return pIfCons{lhs, then, els}
	} else if mentions {
		return seq(pEv{"Unknown"}, mkIf(then, els))
	}
	return seq(e.expr(c), mkIf(then, els))
}

func (e *env) stmt(s ast.Stmt) P {
	switch v := s.(type) {
	case nil, *ast.EmptyStmt:
		return pSkip{}
	case *ast.ExprStmt:
		return e.expr(v.X)
	case *ast.IncDecStmt:
		return e.expr(v.X)
	case *ast.SendStmt:
		return seq(e.expr(v.Chan), e.expr(v.Value))
	case *ast.AssignStmt:
		return e.assign(v.Lhs, v.Rhs, v.Tok == token.DEFINE)
	case *ast.DeclStmt:
		gd, ok := v.Decl.(*ast.GenDecl)
		if !ok {
			return pEv{"Unknown"}
		}
		var ps []P
		for _, sp := range gd.Specs {
			if vs, ok := sp.(*ast.ValueSpec); ok {
				var lhs []ast.Expr
				for _, n := range vs.Names {
					lhs = append(lhs, n)
				}
				ps = append(ps, e.assign(lhs, vs.Values, true))
			}
		}
		return seq(ps...)
	case *ast.GoStmt:
		return e.call(v.Call)
	case *ast.DeferStmt:
		return e.call(v.Call)
	case *ast.ReturnStmt:
		return seq(e.exprs(v.Results), pReturn{})
	case *ast.BlockStmt:
		return e.block(v.List)
	case *ast.LabeledStmt:
		e.labels[v.Label.Name] = len(e.blocks) // the labelled construct pushes the next block
		return e.stmt(v.Stmt)
	case *ast.BranchStmt:
		switch v.Tok {
		case token.BREAK:
			return e.breakTo(v.Label, false)
		case token.CONTINUE:
			return e.breakTo(v.Label, true)
		}
		return pEv{"Unknown"}
	case *ast.IfStmt:
		ne := e.child()
		init := ne.stmt(v.Init)
		then := ne.block(v.Body.List)
		var els P = pSkip{}
		if v.Else != nil {
			els = ne.stmt(v.Else)
		}
		return seq(init, ne.cond(v.Cond, then, els))
	case *ast.ForStmt:
		ne := e.child()
		init := ne.stmt(v.Init)
		var c P = pSkip{}
		if v.Cond != nil {
			if _, _, ok, m := ne.consTest(v.Cond); ok || m {
				c = pEv{"Unknown"}
			} else {
				c = ne.expr(v.Cond)
			}
		}
		ne.blocks = append(append([]string{}, e.blocks...), "loop")
		body := seq(ne.block(v.Body.List), ne.stmt(v.Post))
		return seq(init, c, mkIf(mkBlock(body), pSkip{}))
	case *ast.RangeStmt:
		ne := e.child()
		x := ne.expr(v.X)
		ne.blocks = append(append([]string{}, e.blocks...), "loop")
		if id, ok := v.Key.(*ast.Ident); ok && v.Tok == token.DEFINE {
			ne.vars[id.Name] = nil
		}
		if id, ok := v.Value.(*ast.Ident); ok && v.Tok == token.DEFINE {
			ne.vars[id.Name] = nil
		}
		return seq(x, mkIf(mkBlock(ne.block(v.Body.List)), pSkip{}))
	case *ast.SwitchStmt:
		ne := e.child()
		init := ne.stmt(v.Init)
		var tag P = pSkip{}
		if v.Tag != nil {
			if strings.Contains(src(v.Tag), "onsistency") {
				tag = pEv{"Unknown"}
			} else {
				tag = ne.expr(v.Tag)
			}
		}
		ne.blocks = append(append([]string{}, e.blocks...), "switch")
		var alt P = pSkip{}
		for i := len(v.Body.List) - 1; i >= 0; i-- {
			cc := v.Body.List[i].(*ast.CaseClause)
			var guards []P
			for _, g := range cc.List {
				if _, _, ok, m := ne.consTest(g); ok || m {
					guards = append(guards, pEv{"Unknown"})
				} else {
					guards = append(guards, ne.expr(g))
				}
			}
			alt = seq(seq(guards...), mkIf(ne.block(cc.Body), alt))
		}
		return seq(init, tag, mkBlock(alt))
	case *ast.TypeSwitchStmt:
		ne := e.child()
		init := ne.stmt(v.Init)
		asg := ne.stmt(v.Assign)
		ne.blocks = append(append([]string{}, e.blocks...), "switch")
		var alt P = pSkip{}
		for i := len(v.Body.List) - 1; i >= 0; i-- {
			cc := v.Body.List[i].(*ast.CaseClause)
			alt = mkIf(ne.block(cc.Body), alt)
		}
		return seq(init, asg, mkBlock(alt))
	case *ast.SelectStmt:
		ne := e.child()
		ne.blocks = append(append([]string{}, e.blocks...), "switch")
		var alt P = pSkip{}
		for i := len(v.Body.List) - 1; i >= 0; i-- {
			cc := v.Body.List[i].(*ast.CommClause)
			ce := ne.child()
			comm := ce.stmt(cc.Comm)
			var ps []P
			for _, st := range cc.Body {
				ps = append(ps, ce.stmt(st))
			}
			alt = mkIf(seq(comm, seq(ps...)), alt)
		}
		return mkBlock(alt)
	}
	return pEv{"Unknown"}
}

// ---- relevance (which package-local functions contain events) ------------------------------------

func directlyRelevant(u *unit, fd *ast.FuncDecl) bool {
	found := false
	ast.Inspect(fd.Body, func(n ast.Node) bool {
		switch v := n.(type) {
		case *ast.SelectorExpr:
			if v.Sel.Name == "cache" || v.Sel.Name == "internalStorage" || v.Sel.Name == "DetermineInvalidationTime" ||
				v.Sel.Name == "InvalidateIfNeeded" || v.Sel.Name == higherConst {
				found = true
			}
			for _, d := range u.delegate {
				d = strings.TrimPrefix(d, "$.")
				d = strings.TrimSuffix(d, ".")
				if v.Sel.Name == d {
					found = true
				}
				if id, ok := v.X.(*ast.SelectorExpr); ok && id.Sel.Name == d {
					found = true
				}
			}
		case *ast.Field:
			// a parameter of cache type
			if strings.Contains(src(v.Type), "InMemoryCache") {
				found = true
			}
		}
		return !found
	})
	if fd.Type.Params != nil {
		for _, f := range fd.Type.Params.List {
			t := src(f.Type)
			if strings.Contains(t, "InMemoryCache") || t == "iterFunc" || strings.HasPrefix(t, "func(") {
				found = true
			}
		}
	}
	return found
}

func callees(fd *ast.FuncDecl, recvType string) []string {
	var out []string
	rn := recvName(fd)
	ast.Inspect(fd.Body, func(n ast.Node) bool {
		c, ok := n.(*ast.CallExpr)
		if !ok {
			return true
		}
		switch f := c.Fun.(type) {
		case *ast.Ident:
			out = append(out, f.Name)
		case *ast.SelectorExpr:
			if id, ok := f.X.(*ast.Ident); ok && rn != "" && id.Name == rn {
				out = append(out, recvType+"."+f.Sel.Name)
			}
		}
		return true
	})
	return out
}

func recvTypeName(fd *ast.FuncDecl) string {
	if fd.Recv == nil || len(fd.Recv.List) != 1 {
		return ""
	}
	t := fd.Recv.List[0].Type
	if s, ok := t.(*ast.StarExpr); ok {
		t = s.X
	}
	if ix, ok := t.(*ast.IndexExpr); ok {
		t = ix.X
	}
	if id, ok := t.(*ast.Ident); ok {
		return id.Name
	}
	return ""
}

// ---- second table: datastore read call sites and the consistency they forward ---------------------
//
// Every call  x.Read / ReadUsersetTuples / ReadStartingWithUser / ReadUserTuple / ReadPage (ctx, store,
// filter, options)  in the engines and commands, with what its options argument carries in the field
// Consistency: `Forwards "<expr>"` when it is (or is bound, by a single assignment in the enclosing
// function, to) a literal ...Options{Consistency: storage.ConsistencyOptions{Preference: <expr>}} (the
// ConsistencyOptions literal may itself be bound to a local); `NoConsistency` when the literal has no
// Consistency field (e.g. storage.ReadOptions{}); `UnknownOpts` for anything else (fail closed).
// Calls pipeline.WithStoreConsistency(<expr>) are listed too (they set the field the ListObjects
// pipeline store forwards).

var readDirs = []string{"internal/check", "internal/graph", "internal/checkutil", "internal/listobjects/pipeline",
	"pkg/server/commands", "pkg/server/commands/reverseexpand", "pkg/server/commands/listusers"}

var readMethods = map[string]bool{"Read": true, "ReadUsersetTuples": true, "ReadStartingWithUser": true, "ReadUserTuple": true, "ReadPage": true}

type readSite struct{ file, fn, meth, fwd string }

// bindings of a function body: identifier -> the right-hand sides assigned to it
func assignments(body *ast.BlockStmt) map[string][]ast.Expr {
	m := map[string][]ast.Expr{}
	ast.Inspect(body, func(n ast.Node) bool {
		switch v := n.(type) {
		case *ast.AssignStmt:
			if len(v.Lhs) == len(v.Rhs) {
				for i, l := range v.Lhs {
					if id, ok := l.(*ast.Ident); ok {
						m[id.Name] = append(m[id.Name], v.Rhs[i])
					}
				}
			} else {
				for _, l := range v.Lhs {
					if id, ok := l.(*ast.Ident); ok {
						m[id.Name] = append(m[id.Name], nil)
					}
				}
			}
		case *ast.ValueSpec:
			for i, id := range v.Names {
				if i < len(v.Values) {
					m[id.Name] = append(m[id.Name], v.Values[i])
				} else {
					m[id.Name] = append(m[id.Name], nil)
				}
			}
		case *ast.IncDecStmt:
			if id, ok := v.X.(*ast.Ident); ok {
				m[id.Name] = append(m[id.Name], nil)
			}
		case *ast.UnaryExpr:
			if v.Op == token.AND { // &x: may be written through the pointer
				if id, ok := v.X.(*ast.Ident); ok {
					m[id.Name] = append(m[id.Name], nil)
				}
			}
		}
		return true
	})
	// fields of a tracked value written after the fact (opts.Consistency = ...)
	ast.Inspect(body, func(n ast.Node) bool {
		if as, ok := n.(*ast.AssignStmt); ok {
			for _, l := range as.Lhs {
				if sel, ok := l.(*ast.SelectorExpr); ok {
					if id, ok := sel.X.(*ast.Ident); ok {
						m[id.Name] = append(m[id.Name], nil)
					}
				}
			}
		}
		return true
	})
	return m
}

func resolveLit(e ast.Expr, asg map[string][]ast.Expr, depth int) (*ast.CompositeLit, string) {
	switch v := e.(type) {
	case *ast.ParenExpr:
		return resolveLit(v.X, asg, depth)
	case *ast.CompositeLit:
		return v, ""
	case *ast.Ident:
		rhs := asg[v.Name]
		if depth < 3 && len(rhs) == 1 && rhs[0] != nil {
			return resolveLit(rhs[0], asg, depth+1)
		}
		return nil, fmt.Sprintf("%s (not bound by a single assignment in the function)", v.Name)
	}
	return nil, src(e)
}

func field(cl *ast.CompositeLit, name string) (ast.Expr, bool, bool) {
	keyed := true
	for _, el := range cl.Elts {
		kv, ok := el.(*ast.KeyValueExpr)
		if !ok {
			keyed = false
			continue
		}
		if id, ok := kv.Key.(*ast.Ident); ok && id.Name == name {
			return kv.Value, true, keyed
		}
	}
	return nil, false, keyed
}

func forwarded(opts ast.Expr, asg map[string][]ast.Expr) string {
	cl, why := resolveLit(opts, asg, 0)
	if cl == nil {
		return "UnknownOpts " + coqStr(why)
	}
	if !strings.HasSuffix(src(cl.Type), "Options") {
		return "UnknownOpts " + coqStr(src(opts))
	}
	cv, ok, keyed := field(cl, "Consistency")
	if !keyed {
		return "UnknownOpts " + coqStr(src(cl))
	}
	if !ok {
		return "NoConsistency"
	}
	ccl, why := resolveLit(cv, asg, 0)
	if ccl == nil {
		return "UnknownOpts " + coqStr("Consistency: "+why)
	}
	if !strings.HasSuffix(src(ccl.Type), "ConsistencyOptions") {
		return "UnknownOpts " + coqStr(src(cv))
	}
	pv, ok, keyed := field(ccl, "Preference")
	if !keyed {
		return "UnknownOpts " + coqStr(src(ccl))
	}
	if !ok {
		return "NoConsistency"
	}
	return "Forwards " + coqStr(src(pv))
}

func scanReads(repo string) []readSite {
	var out []readSite
	for _, dir := range readDirs {
		ents, err := os.ReadDir(filepath.Join(repo, dir))
		if err != nil {
			fail("read-site directory %s is missing: %v", dir, err)
		}
		var names []string
		for _, e := range ents {
			if !e.IsDir() && strings.HasSuffix(e.Name(), ".go") && !strings.HasSuffix(e.Name(), "_test.go") {
				names = append(names, e.Name())
			}
		}
		sort.Strings(names)
		for _, fn := range names {
			p := filepath.Join(repo, dir, fn)
			data, err := os.ReadFile(p)
			if err != nil {
				continue
			}
			if !bytes.Contains(data, []byte(".Read")) && !bytes.Contains(data, []byte("WithStoreConsistency(")) {
				continue
			}
			f, err := parser.ParseFile(fset, p, data, parser.SkipObjectResolution)
			if err != nil {
				fail("parse %s: %v", p, err)
			}
			for _, d := range f.Decls {
				fd, ok := d.(*ast.FuncDecl)
				if !ok || fd.Body == nil {
					continue
				}
				name := fd.Name.Name
				if rt := recvTypeName(fd); rt != "" {
					name = rt + "." + name
				}
				asg := assignments(fd.Body)
				// parameters are not bound by an assignment: mark them
				if fd.Type.Params != nil {
					for _, fl := range fd.Type.Params.List {
						for _, n := range fl.Names {
							asg[n.Name] = append(asg[n.Name], nil)
						}
					}
				}
				ast.Inspect(fd.Body, func(n ast.Node) bool {
					c, ok := n.(*ast.CallExpr)
					if !ok {
						return true
					}
					sel, ok := c.Fun.(*ast.SelectorExpr)
					if !ok {
						return true
					}
					if sel.Sel.Name == "WithStoreConsistency" && len(c.Args) == 1 {
						out = append(out, readSite{filepath.Join(dir, fn), name, "WithStoreConsistency", "Forwards " + coqStr(src(c.Args[0]))})
						return true
					}
					if !readMethods[sel.Sel.Name] || len(c.Args) != 4 {
						return true
					}
					out = append(out, readSite{filepath.Join(dir, fn), name, sel.Sel.Name, forwarded(c.Args[3], asg)})
					return true
				})
			}
		}
	}
	if len(out) == 0 {
		fail("no datastore read call site found")
	}
	return out
}

type row struct {
	name string
	file string
	p    P
}

func main() {
	repo := flag.String("repo", "/repo", "repository root")
	out := flag.String("out", "", "output directory (coq/Generated)")
	flag.Parse()
	if *out == "" {
		fail("-out is required")
	}
	var rows []row
	for ui := range units {
		u := &units[ui]
		funcs := map[string]*ast.FuncDecl{}
		var first []*ast.FuncDecl
		for fi, fn := range u.files {
			p := filepath.Join(*repo, u.dir, fn)
			data, err := os.ReadFile(p)
			if err != nil {
				if fi == 0 {
					fail("anchored file %s is missing: %v", filepath.Join(u.dir, fn), err)
				}
				continue
			}
			f, err := parser.ParseFile(fset, p, data, parser.SkipObjectResolution)
			if err != nil {
				fail("parse %s: %v", p, err)
			}
			for _, d := range f.Decls {
				fd, ok := d.(*ast.FuncDecl)
				if !ok || fd.Body == nil {
					continue
				}
				name := fd.Name.Name
				if rt := recvTypeName(fd); rt != "" {
					name = rt + "." + name
				}
				funcs[name] = fd
				if fi == 0 {
					first = append(first, fd)
				}
			}
		}
		rel := map[string]bool{}
		for n, fd := range funcs {
			if directlyRelevant(u, fd) {
				rel[n] = true
			}
		}
		for changed := true; changed; {
			changed = false
			for n, fd := range funcs {
				if rel[n] {
					continue
				}
				for _, c := range callees(fd, recvTypeName(fd)) {
					if rel[c] {
						rel[n] = true
						changed = true
						break
					}
				}
			}
		}
		file := filepath.Join(u.dir, u.files[0])
		if u.ctrlOnly {
			n := 0
			for _, fd := range first {
				has := false
				ast.Inspect(fd.Body, func(nd ast.Node) bool {
					if s, ok := nd.(*ast.SelectorExpr); ok && (s.Sel.Name == "DetermineInvalidationTime" || s.Sel.Name == "InvalidateIfNeeded") {
						has = true
					}
					return !has
				})
				if !has {
					continue
				}
				e := &env{u: u, recv: recvName(fd), vars: map[string]*binding{}, funcs: funcs, rel: rel,
					blocks: []string{"func"}, labels: map[string]int{}}
				name := fd.Name.Name
				if rt := recvTypeName(fd); rt != "" {
					name = rt + "." + name
				}
				rows = append(rows, row{name: name, file: file, p: e.block(fd.Body.List)})
				n++
			}
			if n == 0 {
				fail("%s: no call of the cache controller found (DetermineInvalidationTime / InvalidateIfNeeded)", file)
			}
			continue
		}
		var roots []*ast.FuncDecl
		if len(u.roots) > 0 {
			for _, r := range u.roots {
				fd, ok := funcs[u.recv+"."+r]
				if !ok {
					fail("%s: method %s.%s not found", file, u.recv, r)
				}
				roots = append(roots, fd)
			}
		} else {
			for _, fd := range first {
				if recvTypeName(fd) == u.recv && fd.Name.IsExported() {
					roots = append(roots, fd)
				}
			}
		}
		if len(roots) == 0 {
			fail("%s: no method of %s found", file, u.recv)
		}
		for _, fd := range roots {
			name := u.recv + "." + fd.Name.Name
			e := &env{u: u, recv: recvName(fd), vars: map[string]*binding{}, funcs: funcs, rel: rel,
				stack: []string{name}, blocks: []string{"func"}, labels: map[string]int{}}
			// parameters of cache type
			if fd.Type.Params != nil {
				for _, f := range fd.Type.Params.List {
					if strings.Contains(src(f.Type), "InMemoryCache") {
						for _, n := range f.Names {
							e.vars[n.Name] = &binding{kind: "cache"}
						}
					}
				}
			}
			p := e.block(fd.Body.List)
			if isSkip(p) {
				continue // touches neither a cache nor the wrapped reader
			}
			rows = append(rows, row{name: u.label + "." + fd.Name.Name, file: file, p: p})
		}
	}
	sort.SliceStable(rows, func(i, j int) bool { return rows[i].name < rows[j].name })

	var sb strings.Builder
	sb.WriteString("(* GENERATED by harness/cmd/gen_c10 from the Go source of /repo on every bin/check run.\n   Do not edit: the file is overwritten. *)\n")
	sb.WriteString("From Coq Require Import List String.\nImport ListNotations.\nOpen Scope string_scope.\n\n")
	sb.WriteString("Inductive c10_ev := CacheGet | CacheSet | CacheDel | Delegate | CtrlCall | Unknown.\n\n")
	sb.WriteString("Inductive c10_prog :=\n| PSkip\n| PEv (e : c10_ev)\n| PSeq2 (a b : c10_prog)\n| PIfCons (lhs : string) (hi lo : c10_prog)\n| PIf (a b : c10_prog)\n| PCall (p : c10_prog)\n| PBlock (p : c10_prog)\n| PBreak (n : nat)\n| PReturn.\n\n")
	sb.WriteString("Record c10_row := mkC10Row { c10_name : string; c10_file : string; c10_body : c10_prog }.\n\n")
	sb.WriteString("Definition c10_table : list c10_row :=\n  [")
	for i, r := range rows {
		if i > 0 {
			sb.WriteString(";\n   ")
		}
		fmt.Fprintf(&sb, "mkC10Row %s %s\n     (%s)", coqStr(r.name), coqStr(r.file), coq(r.p))
	}
	sb.WriteString("].\n\n")
	sb.WriteString("Inductive c10_fwd := Forwards (e : string) | NoConsistency | UnknownOpts (txt : string).\n\n")
	sb.WriteString("Record c10_read := mkC10Read { c10r_file : string; c10r_func : string; c10r_meth : string; c10r_fwd : c10_fwd }.\n\n")
	sb.WriteString("Definition c10_reads : list c10_read :=\n  [")
	for i, r := range scanReads(*repo) {
		if i > 0 {
			sb.WriteString(";\n   ")
		}
		fmt.Fprintf(&sb, "mkC10Read %s %s %s (%s)", coqStr(r.file), coqStr(r.fn), coqStr(r.meth), r.fwd)
	}
	sb.WriteString("].\n")
	if err := os.MkdirAll(*out, 0o755); err != nil {
		fail("%v", err)
	}
	dst := filepath.Join(*out, "C10Bypass.v")
	old, _ := os.ReadFile(dst)
	if string(old) != sb.String() {
		if err := os.WriteFile(dst, []byte(sb.String()), 0o644); err != nil {
			fail("%v", err)
		}
	}
}
