//go:build verif

package main

import (
	"context"
	"errors"
	"sort"
	"sync"
	"sync/atomic"
	"time"

	"github.com/openfga/openfga/pkg/storage"
)

// ctlDS wraps the real datastore of a scenario and controls the Reads of ONE ListUsers request:
//   - it records the (object#relation) key of every Read;
//   - failKey: every Read of that key fails with a plain (non-cancellation) error;
//   - delayObj: the Reads of that object wait until no other Read has started for a while (at most
//     30 ms), so that everything reachable through the other sources is already on the channels
//     when this source answers -- the arrival order of the found users is varied on purpose.
type ctlDS struct {
	storage.OpenFGADatastore
	failKey  string
	delayObj string
	mu       sync.Mutex
	keys     map[string]bool
	last     atomic.Int64 // UnixNano of the last Read start that was not delayed
}

var errInjected = errors.New("verif: injected datastore read fault")

func (d *ctlDS) Read(ctx context.Context, store string, filter storage.ReadFilter, opts storage.ReadOptions) (storage.TupleIterator, error) {
	key := filter.Object + "#" + filter.Relation
	d.mu.Lock()
	if d.keys == nil {
		d.keys = map[string]bool{}
	}
	d.keys[key] = true
	d.mu.Unlock()
	if d.failKey != "" && key == d.failKey {
		return nil, errInjected
	}
	if d.delayObj != "" && filter.Object == d.delayObj {
		deadline := time.Now().Add(30 * time.Millisecond)
		for time.Now().Before(deadline) {
			time.Sleep(300 * time.Microsecond)
			if time.Now().UnixNano()-d.last.Load() > int64(1500*time.Microsecond) {
				break
			}
		}
	} else {
		d.last.Store(time.Now().UnixNano())
	}
	return d.OpenFGADatastore.Read(ctx, store, filter, opts)
}

func (d *ctlDS) readKeys() []string {
	d.mu.Lock()
	defer d.mu.Unlock()
	out := make([]string, 0, len(d.keys))
	for k := range d.keys {
		out = append(out, k)
	}
	sort.Strings(out)
	return out
}
