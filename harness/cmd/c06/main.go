//go:build verif

// Driver for C06: the real listusers query (validation + NewListUsersQuery(...).ListUsers) on the
// memory backend for (object, relation) x user filter of generated scenarios, plus the real Check
// for every returned entry and for every concrete user / userset of the filter shape in the data.
// In a quarter of the scenarios up to three (write-valid) tuples are taken out of the store and
// sent as contextual tuples of every request instead (the models see stored + contextual); half
// of the time they ALSO stay in the store (every such tuple is then found twice).
// Follow-up requests of an answered request: result limits equal to the number of returned users,
// +1, +2 (WithListUsersMaxResults); single-read fault injection (every read key of the request in
// turn); delayed reads of one object (both arrival orders of two sources of one user).
//
// Record: 1 model conds tuples atoms requests checks
//
//	request = ( ot oi r ftype frel depth limit edges outcome ( subject ... ) mode )
//	  mode 0 plain | 1 the Reads of one object#relation fail (injected error) | 2 the Reads of one
//	  object are delayed until the other reads are done (arrival order of the found users)
//	  frel 0 = no relation; limit 0 = unlimited; edges 0/1 = doesHavePossibleEdges (2 = error,
//	  3 = not consulted); outcome 0 ok | 3 cond error | 4 depth error | 5 other error | 6 timeout
//	  | 8 validation: type not found | 9 validation: relation not found | 10 validation: other
//	checks  = ( ( subject pathx ( ( ot oi r impl ) ... ) ) ... )   impl as in C01
package main

import (
	"bufio"
	"context"
	"encoding/json"
	"errors"
	"os"
	"sort"
	"time"

	openfgav1 "github.com/openfga/api/proto/openfga/v1"
	"google.golang.org/grpc/codes"
	"google.golang.org/grpc/status"

	"github.com/openfga/openfga/internal/condition"
	"github.com/openfga/openfga/internal/graph"
	"github.com/openfga/openfga/internal/validation"
	"github.com/openfga/openfga/internal/verifharness/lib/rec"
	"github.com/openfga/openfga/internal/verifharness/lib/scen"
	"github.com/openfga/openfga/pkg/server/commands/listusers"
	"github.com/openfga/openfga/pkg/storage"
	"github.com/openfga/openfga/pkg/tuple"
	"github.com/openfga/openfga/pkg/typesystem"
)

const checkDepth = 25

type request struct {
	Obj   string `json:"obj"`
	Rel   string `json:"rel"`
	FType string `json:"ftype"`
	FRel  string `json:"frel,omitempty"`
	Depth int    `json:"depth"`
	Limit int    `json:"limit,omitempty"`
	// FaultKey: every datastore Read of this object#relation fails during the request.
	FaultKey string `json:"fault,omitempty"`
	// DelayObj: the Reads of this object are delayed until the other reads are done.
	DelayObj string `json:"delay,omitempty"`
}

func (q request) plain() bool { return q.Limit == 0 && q.FaultKey == "" && q.DelayObj == "" }
func (q request) mode() int {
	switch {
	case q.FaultKey != "":
		return 1
	case q.DelayObj != "":
		return 2
	}
	return 0
}

type filter struct{ t, r string }

// filters: every type, every type#relation that appears in a restriction or in a tuple's user,
// and a few that are not in the model at all.
func filtersOf(s *scen.Scenario, r *rec.Rand) []filter {
	var out []filter
	seen := map[filter]bool{}
	add := func(f filter) {
		if !seen[f] {
			seen[f] = true
			out = append(out, f)
		}
	}
	for _, td := range s.Types {
		add(filter{td.Name, ""})
	}
	for _, td := range s.Types {
		for _, rd := range td.Rels {
			for _, rs := range rd.Restr {
				if rs.Kind == scen.KSet {
					add(filter{rs.Type, rs.Rel})
				}
			}
		}
	}
	for _, t := range s.Tuples {
		ut, _, ur := scen.SplitUser(t.User)
		if ur != "" {
			add(filter{ut, ur})
		}
	}
	// object#relation of the requests themselves (reflexive entry) for a random defined relation
	for _, td := range s.Types {
		if len(td.Rels) > 0 && r.Chance(1, 2) {
			add(filter{td.Name, rec.Pick(r, td.Rels).Name})
		}
	}
	if r.Chance(1, 3) {
		add(filter{"ghost", ""})
	}
	if r.Chance(1, 3) {
		add(filter{"user", "member"})
	}
	if r.Chance(1, 4) && len(s.Types) > 1 {
		add(filter{s.Types[1].Name, "nosuchrel"})
	}
	return out
}

func genRequests(s *scen.Scenario, r *rec.Rand, objects []string, maxReq int) []request {
	fs := filtersOf(s, r)
	depth := checkDepth
	if r.Chance(1, 8) {
		depth = r.Range(1, 5)
	}
	var all []request
	for _, o := range objects {
		ot, _ := scen.SplitObj(o)
		td := s.Type(ot)
		if td == nil {
			continue
		}
		for _, rd := range td.Rels {
			for _, f := range fs {
				all = append(all, request{Obj: o, Rel: rd.Name, FType: f.t, FRel: f.r, Depth: depth})
			}
		}
	}
	rec.Shuffle(r, all)
	if len(all) > maxReq {
		all = all[:maxReq]
	}
	// malformed targets
	if r.Chance(1, 3) {
		all = append(all, request{Obj: "ghost:1", Rel: "viewer", FType: "user", Depth: depth})
	}
	if r.Chance(1, 3) && len(objects) > 0 {
		all = append(all, request{Obj: rec.Pick(r, objects), Rel: "nosuchrel", FType: "user", Depth: depth})
	}
	// the same request again with a result limit
	n := len(all)
	for i := 0; i < n; i++ {
		if r.Chance(1, 12) {
			q := all[i]
			q.Limit = r.Range(1, 2)
			all = append(all, q)
		}
	}
	return all
}

func lastHash(k string) int {
	for i := len(k) - 1; i >= 0; i-- {
		if k[i] == '#' {
			return i
		}
	}
	return len(k)
}

func userString(u *openfgav1.User) string { return string(tuple.UserProtoToString(u)) }

type runner struct {
	ctx      context.Context
	w        *rec.Writer
	env      *scen.Env
	in       *scen.Intern
	resolver graph.CheckResolver
	checks   map[string]map[[2]string]int // subject -> (object, relation) -> outcome
	order    []string
	ctxT     []scen.Tuple // tuples passed as contextual tuples (not in the store)
}

func (rn *runner) check(sub, obj, rel string) int {
	m, ok := rn.checks[sub]
	if !ok {
		m = map[[2]string]int{}
		rn.checks[sub] = m
		rn.order = append(rn.order, sub)
	}
	k := [2]string{obj, rel}
	if v, ok := m[k]; ok {
		return v
	}
	out, _ := rn.env.Check(rn.ctx, rn.resolver, obj, rel, sub, rn.ctxT)
	rn.w.Stat("checks", 1)
	m[k] = out
	return out
}

// possibleEdges replicates listusers.doesHavePossibleEdges (unexported) for the record.
func possibleEdges(ts *typesystem.TypeSystem, q request) int {
	ot, _ := scen.SplitObj(q.Obj)
	if ot == q.FType && q.Rel == q.FRel {
		return 3
	}
	g := graph.New(ts)
	source := typesystem.DirectRelationReference(q.FType, q.FRel)
	target := typesystem.DirectRelationReference(ot, q.Rel)
	edges, err := g.GetPrunedRelationshipEdges(target, source)
	if err != nil {
		return 2
	}
	if len(edges) > 0 {
		return 1
	}
	return 0
}

func (rn *runner) listUsers(s *scen.Scenario, q request, ds storage.RelationshipTupleReader) (int, []string) {
	ot, oid := scen.SplitObj(q.Obj)
	ctx := typesystem.ContextWithTypesystem(rn.ctx, rn.env.TS)
	req := &openfgav1.ListUsersRequest{
		StoreId:              rn.env.StoreID,
		AuthorizationModelId: rn.env.Model.GetId(),
		Object:               &openfgav1.Object{Type: ot, Id: oid},
		Relation:             q.Rel,
		UserFilters:          []*openfgav1.UserTypeFilter{{Type: q.FType, Relation: q.FRel}},
		Context:              scen.Struct(s.ReqCtx),
	}
	var ctxKeys []*openfgav1.TupleKey
	for _, t := range rn.ctxT {
		ctxKeys = append(ctxKeys, t.Proto())
	}
	req.ContextualTuples = ctxKeys
	if err := listusers.ValidateListUsersRequest(ctx, req, rn.env.TS); err != nil {
		if st, ok := status.FromError(err); ok {
			switch st.Code() {
			case codes.Code(openfgav1.ErrorCode_type_not_found):
				return 8, nil
			case codes.Code(openfgav1.ErrorCode_relation_not_found):
				return 9, nil
			}
		}
		return 10, nil
	}
	lq := listusers.NewListUsersQuery(ds, ctxKeys,
		listusers.WithResolveNodeLimit(uint32(q.Depth)),
		listusers.WithListUsersMaxResults(uint32(q.Limit)),
		listusers.WithListUsersDeadline(20*time.Second),
	)
	resp, err := lq.ListUsers(ctx, req)
	if err != nil {
		switch {
		case errors.Is(err, graph.ErrResolutionDepthExceeded):
			return scen.OutErrDepth, nil
		case errors.Is(err, condition.ErrEvaluationFailed):
			return scen.OutErrCond, nil
		case errors.Is(err, context.DeadlineExceeded), errors.Is(err, context.Canceled):
			return scen.OutTimeout, nil
		}
		return scen.OutErrOther, nil
	}
	var us []string
	for _, u := range resp.GetUsers() {
		us = append(us, userString(u))
	}
	sort.Strings(us)
	return scen.OutAllowed, us
}

func runScenario(ctx context.Context, w *rec.Writer, r *rec.Rand, s *scen.Scenario, reqs []request, ctxKeys []string, ctxDup bool, replay bool, maxReq int) {
	env, err := scen.NewEnv(ctx, s)
	if err != nil {
		if errors.Is(err, scen.ErrModelRejected) {
			w.Stat("models_rejected", 1)
			return
		}
		panic(err)
	}
	defer env.Close()
	w.Stat("models_accepted", 1)
	w.Stat("shape_"+s.Shape, 1)
	in := scen.NewIntern()
	model := in.Model(s)
	conds := in.Conds(s)
	var tvs []rec.V
	for _, t := range s.Tuples {
		ce := env.CEval(ctx, t)
		if ce == 2 {
			w.Stat("tuples_cond_error", 1)
		}
		tvs = append(tvs, in.Tuple(t, ce))
	}
	w.Stat("tuples", len(s.Tuples))
	objects := s.Objects("user:a", "user:b", "user:c")
	atoms := in.Atoms(s, objects)
	if reqs == nil {
		reqs = genRequests(s, r, objects, maxReq)
	}
	resolver, closer := scen.Resolver(scen.NewForcedPlanner("default"), checkDepth)
	defer closer()
	rn := &runner{ctx: ctx, w: w, env: env, in: in, resolver: resolver, checks: map[string]map[[2]string]int{}}
	// some tuples travel as contextual tuples of the requests instead of being stored (only tuples
	// that pass the write validation: anything else makes the request itself invalid)
	twoSrc := s.Shape == "lu-two-sources"
	if !replay && (r.Chance(1, 4) || (twoSrc && r.Chance(1, 2))) {
		// half of the time the tuple stays in the store as well: found twice by every read
		ctxDup = r.Chance(1, 2)
		idx := make([]int, len(s.Tuples))
		for i := range idx {
			idx[i] = i
		}
		rec.Shuffle(r, idx)
		for _, i := range idx {
			if len(ctxKeys) >= 3 {
				break
			}
			if validation.ValidateTupleForWrite(env.TS, s.Tuples[i].Proto()) == nil {
				ctxKeys = append(ctxKeys, s.Tuples[i].Key())
			}
		}
	}
	if len(ctxKeys) > 0 {
		isCtx := map[string]bool{}
		for _, k := range ctxKeys {
			isCtx[k] = true
		}
		var dels storage.Deletes
		for _, t := range s.Tuples {
			if isCtx[t.Key()] {
				rn.ctxT = append(rn.ctxT, t)
				dels = append(dels, &openfgav1.TupleKeyWithoutCondition{Object: t.Obj, Relation: t.Rel, User: t.User})
			}
		}
		if !ctxDup {
			if err := env.DS.Write(ctx, env.StoreID, dels, nil); err != nil {
				panic(err)
			}
		} else {
			// stored AND contextual: every read returns the tuple twice, and the number of times an
			// entry is received matters to the code (excludedUsers are counted per received entry),
			// so the models get the tuple twice as well
			for _, t := range rn.ctxT {
				tvs = append(tvs, in.Tuple(t, env.CEval(ctx, t)))
			}
			w.Stat("scenarios_with_duplicated_contextual_tuples", 1)
		}
		w.Stat("scenarios_with_contextual_tuples", 1)
		w.Stat("contextual_tuples", len(rn.ctxT))
	}
	usersetsInData := map[string]bool{}
	for _, t := range s.Tuples {
		usersetsInData[t.Obj+"#"+t.Rel] = true
		if _, _, ur := scen.SplitUser(t.User); ur != "" {
			usersetsInData[t.User] = true
		}
	}
	var rvs []rec.V
	faultBudget, delayBudget := 2, 1
	if twoSrc {
		delayBudget = 4
	}
	for i := 0; i < len(reqs); i++ {
		q := reqs[i]
		ot, _ := scen.SplitObj(q.Obj)
		var ds storage.RelationshipTupleReader = env.DS
		if q.FaultKey != "" || q.DelayObj != "" {
			ds = &ctlDS{OpenFGADatastore: env.DS, failKey: q.FaultKey, delayObj: q.DelayObj}
		}
		out, users := rn.listUsers(s, q, ds)
		if q.FaultKey != "" {
			w.Stat("fault_requests", 1)
			if out == 0 {
				w.Stat("fault_answered_ok", 1)
			}
		}
		if q.DelayObj != "" {
			w.Stat("delayed_requests", 1)
		}
		// follow-up requests derived from a plain, answered request (generated runs only; a replay
		// carries them in its request list)
		if !replay && q.plain() && out == 0 && len(users) > 0 {
			// result limit around the number of distinct users: exactly, +1, +2
			if r.Chance(1, 5) || (twoSrc && r.Chance(1, 2)) {
				x := q
				x.Limit = len(users) + r.Intn(3)
				reqs = append(reqs, x)
				if r.Chance(1, 2) {
					y := q
					y.Limit = len(users) + r.Intn(3)
					if y.Limit != x.Limit {
						reqs = append(reqs, y)
					}
				}
			}
			wantFault := faultBudget > 0 && r.Chance(1, 3)
			wantDelay := delayBudget > 0 && (r.Chance(1, 10) || (twoSrc && q.FType == "user" && q.Rel != "allowed"))
			if wantFault || wantDelay {
				recDS := &ctlDS{OpenFGADatastore: env.DS}
				rn.listUsers(s, q, recDS)
				keys := recDS.readKeys()
				if wantFault && len(keys) > 0 {
					faultBudget--
					ks := append([]string{}, keys...)
					rec.Shuffle(r, ks)
					if len(ks) > 5 {
						ks = ks[:5]
					}
					for _, k := range ks {
						x := q
						x.FaultKey = k
						reqs = append(reqs, x)
					}
				}
				if wantDelay {
					var objs []string
					seen := map[string]bool{}
					for _, k := range keys {
						on := k[:lastHash(k)]
						if !seen[on] && on != q.Obj {
							seen[on] = true
							objs = append(objs, on)
						}
					}
					if len(objs) > 0 {
						delayBudget--
						rec.Shuffle(r, objs)
						if len(objs) > 4 {
							objs = objs[:4]
						}
						for _, o := range objs {
							x := q
							x.DelayObj = o
							reqs = append(reqs, x)
						}
					}
				}
			}
		}
		edges := 3
		if out < 8 {
			edges = possibleEdges(env.TS, q)
		}
		w.Stat("requests", 1)
		w.Stat("outcome_"+map[int]string{0: "ok", 3: "err_cond", 4: "err_depth", 5: "err_other", 6: "timeout", 8: "invalid_type", 9: "invalid_relation", 10: "invalid_other"}[out], 1)
		if q.FRel != "" {
			w.Stat("filter_userset", 1)
		} else {
			w.Stat("filter_type", 1)
		}
		if q.Limit > 0 {
			w.Stat("limited", 1)
		}
		if q.Depth != checkDepth {
			w.Stat("small_depth", 1)
		}
		if out == 0 {
			if edges == 0 {
				w.Stat("pruned_no_edges", 1)
			}
			if len(users) == 0 {
				w.Stat("result_empty", 1)
			} else {
				w.Stat("result_nonempty", 1)
			}
		}
		var uvs []rec.V
		for _, u := range users {
			_, uid, urel := scen.SplitUser(u)
			switch {
			case urel != "":
				w.Stat("returned_userset", 1)
			case uid == "*":
				w.Stat("returned_wildcard", 1)
			default:
				w.Stat("returned_object", 1)
			}
			uvs = append(uvs, in.Subject(u))
			rn.check(u, q.Obj, q.Rel)
		}
		// completeness candidates: concrete users / usersets of the filter shape in the data
		if out == 0 && s.Type(ot) != nil && s.Rel(ot, q.Rel) != nil {
			for _, o := range objects {
				t, _ := scen.SplitObj(o)
				if t != q.FType {
					continue
				}
				c := o
				if q.FRel != "" {
					c = o + "#" + q.FRel
					if !usersetsInData[c] {
						continue // only usersets that occur in the data (as a tuple's user or as object#relation)
					}
				}
				rn.check(c, q.Obj, q.Rel)
			}
		}
		a, b := in.Obj(q.Obj)
		frel := 0
		if q.FRel != "" {
			frel = in.R(q.FRel)
		}
		rvs = append(rvs, rec.L(a, b, rec.I(in.R(q.Rel)), rec.I(in.T(q.FType)), rec.I(frel),
			rec.I(q.Depth), rec.I(q.Limit), rec.I(edges), rec.I(out), rec.L(uvs...), rec.I(q.mode())))
	}
	var cvs []rec.V
	for _, sub := range rn.order {
		var pxs []rec.V
		for _, p := range env.PathX(sub) {
			pxs = append(pxs, rec.L(rec.I(in.T(p[0])), rec.I(in.R(p[1]))))
		}
		m := rn.checks[sub]
		keys := make([][2]string, 0, len(m))
		for k := range m {
			keys = append(keys, k)
		}
		sort.Slice(keys, func(i, j int) bool {
			if keys[i][0] != keys[j][0] {
				return keys[i][0] < keys[j][0]
			}
			return keys[i][1] < keys[j][1]
		})
		var res []rec.V
		for _, k := range keys {
			a, b := in.Obj(k[0])
			res = append(res, rec.L(a, b, rec.I(in.R(k[1])), rec.I(m[k])))
		}
		cvs = append(cvs, rec.L(in.Subject(sub), rec.L(pxs...), rec.L(res...)))
	}
	desc := map[string]any{"scenario": s, "requests": reqs, "ctx": ctxKeys, "ctxdup": ctxDup, "text": s.String()}
	if len(reqs) == 0 {
		desc["nt"] = false
	}
	w.Case(desc, rec.I(1), model, conds, rec.L(tvs...), atoms, rec.L(rvs...), rec.L(cvs...))
}

func main() {
	o := rec.ParseFlags()
	w := rec.NewWriter(o.Out)
	defer w.Close()
	ctx := context.Background()
	maxReq := 60
	if o.Tier == "thorough" {
		maxReq = 120
	}
	if o.Replay != "" {
		f, err := os.Open(o.Replay)
		if err != nil {
			panic(err)
		}
		defer f.Close()
		sc := bufio.NewScanner(f)
		sc.Buffer(make([]byte, 1<<20), 1<<26)
		for sc.Scan() {
			var d struct {
				Scenario *scen.Scenario `json:"scenario"`
				Requests []request      `json:"requests"`
				Ctx      []string       `json:"ctx"`
				CtxDup   bool           `json:"ctxdup"`
			}
			if json.Unmarshal(sc.Bytes(), &d) != nil || d.Scenario == nil {
				continue
			}
			runScenario(ctx, w, rec.NewRand(1), d.Scenario, d.Requests, d.Ctx, d.CtxDup, true, maxReq)
		}
		return
	}
	r := rec.NewRand(o.Seed)
	for i := 0; i < o.N; i++ {
		rr := r.Fork()
		var s *scen.Scenario
		if x := rr.Intn(8); x < 3 {
			s = luScenario(rr)
		} else if x == 3 {
			s = twoSourceScenario(rr)
		} else {
			s = scen.Generate(rr, scen.DefaultOpts())
		}
		runScenario(ctx, w, rr, s, nil, nil, false, false, maxReq)
	}
}
