//go:build verif

package main

import (
	"fmt"

	"github.com/openfga/openfga/internal/verifharness/lib/rec"
	"github.com/openfga/openfga/internal/verifharness/lib/scen"
)

// luScenario generates the region that matters for ListUsers and that the shared generator reaches
// rarely: typed wildcards under nested set operators (exclusion below union / intersection /
// exclusion, directly or through computed usersets, usersets and tuple-to-userset), and several
// usersets of one relation whose expansion meets an exclusion (entries of both relationship
// statuses arriving on one channel).
func luScenario(r *rec.Rand) *scen.Scenario {
	s := &scen.Scenario{Shape: "lu-wildcard-nesting"}
	pw := r.Range(1, 3) // wildcard probability pw/4
	restr := func(allowSet bool) []scen.Restr {
		var rs []scen.Restr
		if r.Chance(5, 6) {
			rs = append(rs, scen.RObj("user"))
		}
		if r.Chance(pw, 4) {
			rs = append(rs, scen.RWild("user"))
		}
		if allowSet && r.Chance(1, 2) {
			rs = append(rs, scen.RSet("group", "member"))
		}
		if len(rs) == 0 {
			rs = append(rs, scen.RObj("user"))
		}
		return rs
	}
	// group
	g := scen.TypeDef{Name: "group"}
	g.Rels = append(g.Rels, scen.RelDef{Name: "blocked", RW: scen.This(), Restr: restr(false)})
	g.Rels = append(g.Rels, scen.RelDef{Name: "allowed", RW: scen.This(), Restr: restr(false)})
	mr := restr(false)
	if r.Chance(1, 3) {
		mr = append(mr, scen.RSet("group", "member"))
	}
	var mrw *scen.Rewrite
	switch r.Intn(6) {
	case 0, 1:
		mrw = scen.This()
	case 2, 3:
		mrw = scen.Diff(scen.This(), scen.Comp("blocked"))
	case 4:
		mrw = scen.Inter(scen.This(), scen.Comp("allowed"))
	default:
		mrw = scen.Union(scen.This(), scen.Diff(scen.Comp("allowed"), scen.Comp("blocked")))
	}
	g.Rels = append(g.Rels, scen.RelDef{Name: "member", RW: mrw, Restr: mr})
	// doc: base relations, then derived ones
	d := scen.TypeDef{Name: "doc"}
	d.Rels = append(d.Rels, scen.RelDef{Name: "parent", RW: scen.This(), Restr: []scen.Restr{scen.RObj("doc")}})
	base := []string{"owner", "editor", "blocked", "allowed"}
	for _, b := range base {
		d.Rels = append(d.Rels, scen.RelDef{Name: b, RW: scen.This(), Restr: restr(true)})
	}
	avail := append([]string{}, base...)
	var gen func(depth int, self string) *scen.Rewrite
	gen = func(depth int, self string) *scen.Rewrite {
		if depth >= 3 || r.Chance(1+depth, 5) {
			switch x := r.Intn(10); {
			case x < 7:
				return scen.Comp(rec.Pick(r, avail))
			case x < 8:
				return scen.This()
			default:
				return scen.TTU("parent", rec.Pick(r, avail))
			}
		}
		a, b := gen(depth+1, self), gen(depth+1, self)
		switch x := r.Intn(10); {
		case x < 3:
			if r.Chance(1, 4) {
				return scen.Union(a, b, gen(depth+1, self))
			}
			return scen.Union(a, b)
		case x < 6:
			if r.Chance(1, 4) {
				return scen.Inter(a, b, gen(depth+1, self))
			}
			return scen.Inter(a, b)
		default:
			return scen.Diff(a, b)
		}
	}
	for _, name := range []string{"viewer", "member"} {
		rw := gen(0, name)
		rd := scen.RelDef{Name: name, RW: rw}
		if rw.HasThis() {
			rd.Restr = restr(true)
		}
		d.Rels = append(d.Rels, rd)
		avail = append(avail, name)
	}
	s.Types = []scen.TypeDef{{Name: "user"}, g, d}
	// tuples
	ids := func(t string) []string {
		if t == "user" {
			return []string{"a", "b", "c"}
		}
		return []string{"1", "2"}
	}
	p := r.Range(1, 3) // tuple density p/6
	for _, td := range s.Types {
		for _, rd := range td.Rels {
			if !rd.RW.HasThis() {
				continue
			}
			for _, oid := range ids(td.Name) {
				obj := td.Name + ":" + oid
				for _, rs := range rd.Restr {
					switch rs.Kind {
					case scen.KObj:
						for _, uid := range ids(rs.Type) {
							if r.Chance(p, 6) {
								s.Tuples = append(s.Tuples, scen.Tuple{Obj: obj, Rel: rd.Name, User: rs.Type + ":" + uid})
							}
						}
					case scen.KWild:
						if r.Chance(p+1, 6) {
							s.Tuples = append(s.Tuples, scen.Tuple{Obj: obj, Rel: rd.Name, User: rs.Type + ":*"})
						}
					case scen.KSet:
						for _, uid := range ids(rs.Type) {
							if r.Chance(p+1, 6) {
								s.Tuples = append(s.Tuples, scen.Tuple{Obj: obj, Rel: rd.Name, User: fmt.Sprintf("%s:%s#%s", rs.Type, uid, rs.Rel)})
							}
						}
					}
				}
			}
		}
	}
	rec.Shuffle(r, s.Tuples)
	return s
}

// twoSourceScenario: an operand of an intersection (or union / exclusion) that fans out to several
// sources for the same user -- usersets of two group types or tuple-to-userset parents -- one of
// them through an exclusion (`member: [user] but not banned`, users both member and banned), and
// users that are reachable over several paths (directly, through groups, through both).  Found
// users then arrive several times and with both relationship statuses; the driver varies their
// arrival order (delayed reads) and the result limit around the number of distinct users.
func twoSourceScenario(r *rec.Rand) *scen.Scenario {
	s := &scen.Scenario{Shape: "lu-two-sources"}
	U := scen.RObj("user")
	group := scen.TypeDef{Name: "group", Rels: []scen.RelDef{
		{Name: "banned", RW: scen.This(), Restr: []scen.Restr{U}},
		{Name: "member", RW: scen.Diff(scen.This(), scen.Comp("banned")), Restr: []scen.Restr{U}},
	}}
	team := scen.TypeDef{Name: "team", Rels: []scen.RelDef{
		{Name: "member", RW: scen.This(), Restr: []scen.Restr{U}},
	}}
	var src scen.RelDef
	var parent *scen.RelDef
	if r.Chance(2, 3) {
		src = scen.RelDef{Name: "editor", RW: scen.This(), Restr: []scen.Restr{scen.RSet("group", "member"), scen.RSet("team", "member")}}
		if r.Chance(1, 2) {
			src.Restr = append(src.Restr, U)
		}
	} else {
		parent = &scen.RelDef{Name: "parent", RW: scen.This(), Restr: []scen.Restr{scen.RObj("group"), scen.RObj("team")}}
		src = scen.RelDef{Name: "editor", RW: scen.TTU("parent", "member")}
		if r.Chance(1, 2) {
			src.RW = scen.Union(scen.This(), scen.TTU("parent", "member"))
			src.Restr = []scen.Restr{U}
		}
	}
	allowed := scen.RelDef{Name: "allowed", RW: scen.This(), Restr: []scen.Restr{U}}
	if r.Chance(1, 3) {
		allowed.Restr = append(allowed.Restr, scen.RWild("user"))
	}
	var vrw *scen.Rewrite
	switch r.Intn(6) {
	case 0, 1, 2:
		vrw = scen.Inter(scen.Comp("editor"), scen.Comp("allowed"))
	case 3:
		vrw = scen.Inter(scen.Comp("allowed"), scen.Comp("editor"), scen.Comp("allowed"))
	case 4:
		vrw = scen.Union(scen.Comp("editor"), scen.Comp("allowed"))
	default:
		vrw = scen.Diff(scen.Comp("allowed"), scen.Comp("editor"))
	}
	doc := scen.TypeDef{Name: "doc"}
	if parent != nil {
		doc.Rels = append(doc.Rels, *parent)
	}
	doc.Rels = append(doc.Rels, src, allowed, scen.RelDef{Name: "viewer", RW: vrw})
	s.Types = []scen.TypeDef{{Name: "user"}, group, team, doc}
	add := func(o, rel, u string) { s.Tuples = append(s.Tuples, scen.Tuple{Obj: o, Rel: rel, User: u}) }
	users := []string{"a", "b", "c"}
	for _, g := range []string{"1", "2"} {
		for _, u := range users {
			if r.Chance(2, 3) {
				add("group:"+g, "member", "user:"+u)
			}
			if r.Chance(1, 2) {
				add("group:"+g, "banned", "user:"+u)
			}
			if r.Chance(1, 2) {
				add("team:"+g, "member", "user:"+u)
			}
		}
	}
	for _, d := range []string{"1", "2"} {
		for _, g := range []string{"1", "2"} {
			for _, t := range []string{"group", "team"} {
				if !r.Chance(2, 3) {
					continue
				}
				if parent != nil {
					add("doc:"+d, "parent", t+":"+g)
				} else {
					add("doc:"+d, "editor", t+":"+g+"#member")
				}
			}
		}
		for _, u := range users {
			if r.Chance(2, 3) {
				add("doc:"+d, "allowed", "user:"+u)
			}
			if src.RW.HasThis() && len(src.Restr) > 0 && src.Restr[len(src.Restr)-1] == U && r.Chance(1, 3) {
				add("doc:"+d, "editor", "user:"+u)
			}
		}
		if len(allowed.Restr) > 1 && r.Chance(1, 2) {
			add("doc:"+d, "allowed", "user:*")
		}
	}
	rec.Shuffle(r, s.Tuples)
	return s
}
