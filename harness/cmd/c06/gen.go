//go:build verif

package main

import (
	"fmt"

	"github.com/openfga/openfga/internal/verifharness/lib/rec"
	"github.com/openfga/openfga/internal/verifharness/lib/scen"
)

// luScenario generates the region that matters for ListUsers and that the shared generator reaches
// rarely: typed wildcards under nested set operators (exclusion below union / intersection /
// exclusion, directly or through computed usersets, usersets and tuple-to-userset), and several
// usersets of one relation whose expansion meets an exclusion (entries of both relationship
// statuses arriving on one channel).
func luScenario(r *rec.Rand) *scen.Scenario {
	s := &scen.Scenario{Shape: "lu-wildcard-nesting"}
	pw := r.Range(1, 3) // wildcard probability pw/4
	restr := func(allowSet bool) []scen.Restr {
		var rs []scen.Restr
		if r.Chance(5, 6) {
			rs = append(rs, scen.RObj("user"))
		}
		if r.Chance(pw, 4) {
			rs = append(rs, scen.RWild("user"))
		}
		if allowSet && r.Chance(1, 2) {
			rs = append(rs, scen.RSet("group", "member"))
		}
		if len(rs) == 0 {
			rs = append(rs, scen.RObj("user"))
		}
		return rs
	}
	// group
	g := scen.TypeDef{Name: "group"}
	g.Rels = append(g.Rels, scen.RelDef{Name: "blocked", RW: scen.This(), Restr: restr(false)})
	g.Rels = append(g.Rels, scen.RelDef{Name: "allowed", RW: scen.This(), Restr: restr(false)})
	mr := restr(false)
	if r.Chance(1, 3) {
		mr = append(mr, scen.RSet("group", "member"))
	}
	var mrw *scen.Rewrite
	switch r.Intn(6) {
	case 0, 1:
		mrw = scen.This()
	case 2, 3:
		mrw = scen.Diff(scen.This(), scen.Comp("blocked"))
	case 4:
		mrw = scen.Inter(scen.This(), scen.Comp("allowed"))
	default:
		mrw = scen.Union(scen.This(), scen.Diff(scen.Comp("allowed"), scen.Comp("blocked")))
	}
	g.Rels = append(g.Rels, scen.RelDef{Name: "member", RW: mrw, Restr: mr})
	// doc: base relations, then derived ones
	d := scen.TypeDef{Name: "doc"}
	d.Rels = append(d.Rels, scen.RelDef{Name: "parent", RW: scen.This(), Restr: []scen.Restr{scen.RObj("doc")}})
	base := []string{"owner", "editor", "blocked", "allowed"}
	for _, b := range base {
		d.Rels = append(d.Rels, scen.RelDef{Name: b, RW: scen.This(), Restr: restr(true)})
	}
	avail := append([]string{}, base...)
	var gen func(depth int, self string) *scen.Rewrite
	gen = func(depth int, self string) *scen.Rewrite {
		if depth >= 3 || r.Chance(1+depth, 5) {
			switch x := r.Intn(10); {
			case x < 7:
				return scen.Comp(rec.Pick(r, avail))
			case x < 8:
				return scen.This()
			default:
				return scen.TTU("parent", rec.Pick(r, avail))
			}
		}
		a, b := gen(depth+1, self), gen(depth+1, self)
		switch x := r.Intn(10); {
		case x < 3:
			if r.Chance(1, 4) {
				return scen.Union(a, b, gen(depth+1, self))
			}
			return scen.Union(a, b)
		case x < 6:
			if r.Chance(1, 4) {
				return scen.Inter(a, b, gen(depth+1, self))
			}
			return scen.Inter(a, b)
		default:
			return scen.Diff(a, b)
		}
	}
	for _, name := range []string{"viewer", "member"} {
		rw := gen(0, name)
		rd := scen.RelDef{Name: name, RW: rw}
		if rw.HasThis() {
			rd.Restr = restr(true)
		}
		d.Rels = append(d.Rels, rd)
		avail = append(avail, name)
	}
	s.Types = []scen.TypeDef{{Name: "user"}, g, d}
	// tuples
	ids := func(t string) []string {
		if t == "user" {
			return []string{"a", "b", "c"}
		}
		return []string{"1", "2"}
	}
	p := r.Range(1, 3) // tuple density p/6
	for _, td := range s.Types {
		for _, rd := range td.Rels {
			if !rd.RW.HasThis() {
				continue
			}
			for _, oid := range ids(td.Name) {
				obj := td.Name + ":" + oid
				for _, rs := range rd.Restr {
					switch rs.Kind {
					case scen.KObj:
						for _, uid := range ids(rs.Type) {
							if r.Chance(p, 6) {
								s.Tuples = append(s.Tuples, scen.Tuple{Obj: obj, Rel: rd.Name, User: rs.Type + ":" + uid})
							}
						}
					case scen.KWild:
						if r.Chance(p+1, 6) {
							s.Tuples = append(s.Tuples, scen.Tuple{Obj: obj, Rel: rd.Name, User: rs.Type + ":*"})
						}
					case scen.KSet:
						for _, uid := range ids(rs.Type) {
							if r.Chance(p+1, 6) {
								s.Tuples = append(s.Tuples, scen.Tuple{Obj: obj, Rel: rd.Name, User: fmt.Sprintf("%s:%s#%s", rs.Type, uid, rs.Rel)})
							}
						}
					}
				}
			}
		}
	}
	rec.Shuffle(r, s.Tuples)
	return s
}
