//go:build verif

package main

import (
	"context"
	"errors"
	"fmt"
	"sort"
	"strings"
	"sync"
	"sync/atomic"
	"time"

	"google.golang.org/protobuf/types/known/structpb"

	openfgav1 "github.com/openfga/api/proto/openfga/v1"
	"github.com/openfga/language/pkg/go/transformer"

	"github.com/openfga/openfga/internal/verifharness/lib/rec"
	"github.com/openfga/openfga/pkg/server"
	serverErrors "github.com/openfga/openfga/pkg/server/errors"
	"github.com/openfga/openfga/pkg/storage"
	"github.com/openfga/openfga/pkg/storage/cache/keys"
	"github.com/openfga/openfga/pkg/storage/memory"
	"github.com/openfga/openfga/pkg/storage/storagewrappers"
)

// ---------------------------------------------------------------------------------------------
// fault injection below the server

var (
	serverErrCancelled = serverErrors.ErrRequestCancelled
	serverErrDeadline  = serverErrors.ErrRequestDeadlineExceeded
)

type planKey struct{}

// faultPlan: the n-th datastore event of a request (a read call or a Next on one of its iterators)
// triggers the fault.  mode 1: cancel the request context before the read; 2: return context.Canceled;
// 3: return context.DeadlineExceeded; 4: return an unrelated error; 5: cancel the request context
// WHILE the read is in progress (the read itself succeeds and returns its tuple).
type faultPlan struct {
	mode      int
	countdown atomic.Int32
	cancel    context.CancelFunc
	fired     atomic.Bool
	during    atomic.Bool // mode 5: cancel after the delegate call returned
}

func (p *faultPlan) tick() error {
	if p == nil {
		return nil
	}
	if p.countdown.Add(-1) != 0 {
		return nil
	}
	p.fired.Store(true)
	switch p.mode {
	case 1:
		p.cancel()
		return nil
	case 5:
		p.during.Store(true)
		return nil
	case 2:
		return context.Canceled
	case 3:
		return context.DeadlineExceeded
	}
	return errScripted
}

type faultDS struct {
	storage.OpenFGADatastore
	outstanding atomic.Int64
	opened      atomic.Int64
}

type faultIter struct {
	storage.TupleIterator
	ds      *faultDS
	plan    *faultPlan
	stopped atomic.Bool
}

func (f *faultIter) Next(ctx context.Context) (*openfgav1.Tuple, error) {
	if err := f.plan.tick(); err != nil {
		return nil, err
	}
	t, err := f.TupleIterator.Next(ctx)
	if f.plan != nil && f.plan.during.CompareAndSwap(true, false) {
		f.plan.cancel()
	}
	return t, err
}

func (f *faultIter) Stop() {
	if f.stopped.CompareAndSwap(false, true) {
		f.ds.outstanding.Add(-1)
	}
	f.TupleIterator.Stop()
}

func planOf(ctx context.Context) *faultPlan {
	p, _ := ctx.Value(planKey{}).(*faultPlan)
	return p
}

func (d *faultDS) wrap(ctx context.Context, it storage.TupleIterator, err error) (storage.TupleIterator, error) {
	if err != nil {
		return nil, err
	}
	d.outstanding.Add(1)
	d.opened.Add(1)
	return &faultIter{TupleIterator: it, ds: d, plan: planOf(ctx)}, nil
}

func (d *faultDS) Read(ctx context.Context, store string, f storage.ReadFilter, o storage.ReadOptions) (storage.TupleIterator, error) {
	if err := planOf(ctx).tick(); err != nil {
		return nil, err
	}
	it, err := d.OpenFGADatastore.Read(ctx, store, f, o)
	return d.wrap(ctx, it, err)
}

func (d *faultDS) ReadUsersetTuples(ctx context.Context, store string, f storage.ReadUsersetTuplesFilter, o storage.ReadUsersetTuplesOptions) (storage.TupleIterator, error) {
	if err := planOf(ctx).tick(); err != nil {
		return nil, err
	}
	it, err := d.OpenFGADatastore.ReadUsersetTuples(ctx, store, f, o)
	return d.wrap(ctx, it, err)
}

func (d *faultDS) ReadStartingWithUser(ctx context.Context, store string, f storage.ReadStartingWithUserFilter, o storage.ReadStartingWithUserOptions) (storage.TupleIterator, error) {
	if err := planOf(ctx).tick(); err != nil {
		return nil, err
	}
	it, err := d.OpenFGADatastore.ReadStartingWithUser(ctx, store, f, o)
	return d.wrap(ctx, it, err)
}

func (d *faultDS) ReadUserTuple(ctx context.Context, store string, f storage.ReadUserTupleFilter, o storage.ReadUserTupleOptions) (*openfgav1.Tuple, error) {
	if err := planOf(ctx).tick(); err != nil {
		return nil, err
	}
	return d.OpenFGADatastore.ReadUserTuple(ctx, store, f, o)
}

// quiesce waits until every iterator handed to the server has been stopped (the cache layers stop
// the inner iterator after their background drain and flush).  Only detection power depends on
// it, never a verdict.
func (d *faultDS) quiesce(limit time.Duration) bool {
	deadline := time.Now().Add(limit)
	for d.outstanding.Load() > 0 {
		if time.Now().After(deadline) {
			return false
		}
		time.Sleep(200 * time.Microsecond)
	}
	return true
}

// countCache counts iterator-cache traffic on the server's real LRU cache.
type countCache struct {
	storage.InMemoryCache[any]
	hits atomic.Int64
	sets atomic.Int64
}

func (c *countCache) Get(k keys.Key) any {
	v := c.InMemoryCache.Get(k)
	switch v.(type) {
	case *storage.TupleIteratorCacheEntry, *storagewrappers.V2IteratorCacheEntry:
		c.hits.Add(1)
	}
	return v
}

func (c *countCache) Set(k keys.Key, v any, ttl time.Duration) {
	switch v.(type) {
	case *storage.TupleIteratorCacheEntry, *storagewrappers.V2IteratorCacheEntry:
		c.sets.Add(1)
	}
	c.InMemoryCache.Set(k, v, ttl)
}

// ---------------------------------------------------------------------------------------------
// servers

type e2eServer struct {
	srv   *server.Server
	ds    *faultDS
	cache *countCache
}

var (
	e2eMu      sync.Mutex
	e2eServers = map[string]*e2eServer{}
)

// configurations: "off", "on", "on_shared", "v2_off", "v2_on"
func getServer(name string, maxResults uint32) *e2eServer {
	e2eMu.Lock()
	defer e2eMu.Unlock()
	key := fmt.Sprintf("%s/%d", name, maxResults)
	if s, ok := e2eServers[key]; ok {
		return s
	}
	ds := &faultDS{OpenFGADatastore: memory.New()}
	opts := []server.OpenFGAServiceV1Option{
		server.WithDatastore(ds),
		server.WithRequestTimeout(2 * time.Minute),
		server.WithListObjectsDeadline(2 * time.Minute),
		server.WithListUsersDeadline(2 * time.Minute),
	}
	es := &e2eServer{ds: ds}
	on := strings.Contains(name, "on")
	if on {
		lru, err := storage.NewInMemoryLRUCache[any]()
		if err != nil {
			panic(err)
		}
		es.cache = &countCache{InMemoryCache: lru}
		opts = append(opts,
			server.WithCheckCache(es.cache),
			server.WithCheckIteratorCacheEnabled(true),
			server.WithCheckIteratorCacheMaxResults(maxResults),
			server.WithCheckIteratorCacheTTL(time.Hour),
			server.WithListObjectsIteratorCacheEnabled(true),
			server.WithListObjectsIteratorCacheMaxResults(maxResults),
			server.WithListObjectsIteratorCacheTTL(time.Hour),
		)
	}
	if strings.Contains(name, "shared") {
		opts = append(opts, server.WithSharedIteratorEnabled(true))
	}
	if strings.HasPrefix(name, "v2") {
		opts = append(opts, server.WithExperimentals("weighted_graph_check"))
	}
	es.srv = server.MustNewServerWithOpts(opts...)
	e2eServers[key] = es
	return es
}

func closeE2E() {
	e2eMu.Lock()
	defer e2eMu.Unlock()
	for k, s := range e2eServers {
		s.ds.quiesce(3 * time.Second)
		s.srv.Close()
		delete(e2eServers, k)
	}
}

// ---------------------------------------------------------------------------------------------
// model, data, requests

const e2eModel = `model
  schema 1.1
type user
type employee
type group
  relations
    define member: [user, user:*, employee, group#member]
type folder
  relations
    define parent: [folder]
    define owner: [user, group#member]
    define viewer: [user, user:*, group#member, user with cnd] or owner or viewer from parent
type doc
  relations
    define parent: [folder]
    define owner: [user]
    define blocked: [user, group#member]
    define editor: [user, group#member, user with cnd2]
    define viewer: [user, user:*, group#member] or editor or viewer from parent
    define can_view: viewer but not blocked
    define can_edit: editor and viewer
condition cnd(x: int) {
  x < 100
}
condition cnd2(ip: string) {
  ip == "10.0.0.1"
}
`

type e2eReq struct {
	list     bool
	object   string // check
	typ      string // list objects
	relation string
	user     string
	higher   bool
	x        int
	ip       string
}

func (q e2eReq) String() string {
	if q.list {
		return fmt.Sprintf("LO %s#%s@%s x=%d ip=%s h=%v", q.typ, q.relation, q.user, q.x, q.ip, q.higher)
	}
	return fmt.Sprintf("CK %s#%s@%s x=%d ip=%s h=%v", q.object, q.relation, q.user, q.x, q.ip, q.higher)
}

func genTuples(r *rec.Rand) []*openfgav1.TupleKey {
	seen := map[string]bool{}
	var out []*openfgav1.TupleKey
	add := func(o, rel, u string, c *openfgav1.RelationshipCondition) {
		k := o + "#" + rel + "@" + u
		if seen[k] {
			return
		}
		seen[k] = true
		out = append(out, &openfgav1.TupleKey{Object: o, Relation: rel, User: u, Condition: c})
	}
	user := func() string { return fmt.Sprintf("user:u%d", r.Intn(5)) }
	n := r.Range(25, 70)
	for i := 0; i < n; i++ {
		switch r.Intn(14) {
		case 0:
			add(fmt.Sprintf("group:g%d", r.Intn(4)), "member", user(), nil)
		case 1:
			add(fmt.Sprintf("group:g%d", r.Intn(4)), "member", rec.Pick(r, []string{"user:*", "employee:e0"}), nil)
		case 2: // acyclic nesting: g_i is a member of g_j only for i < j
			i1 := r.Intn(3)
			j1 := i1 + 1 + r.Intn(3-i1)
			add(fmt.Sprintf("group:g%d", j1), "member", fmt.Sprintf("group:g%d#member", i1), nil)
		case 3: // acyclic folder tree: parent has the smaller index
			c := 1 + r.Intn(3)
			add(fmt.Sprintf("folder:f%d", c), "parent", fmt.Sprintf("folder:f%d", r.Intn(c)), nil)
		case 4:
			add(fmt.Sprintf("folder:f%d", r.Intn(4)), "owner", rec.Pick(r, []string{user(), fmt.Sprintf("group:g%d#member", r.Intn(4))}), nil)
		case 5:
			add(fmt.Sprintf("folder:f%d", r.Intn(4)), "viewer", rec.Pick(r, []string{user(), "user:*", fmt.Sprintf("group:g%d#member", r.Intn(4))}), nil)
		case 6:
			s, _ := structpb.NewStruct(map[string]any{"x": float64(rec.Pick(r, []int{5, 500}))})
			add(fmt.Sprintf("folder:f%d", r.Intn(4)), "viewer", user(), &openfgav1.RelationshipCondition{Name: "cnd", Context: rec.Pick(r, []*structpb.Struct{nil, s})})
		case 7:
			add(fmt.Sprintf("doc:d%d", r.Intn(6)), "parent", fmt.Sprintf("folder:f%d", r.Intn(4)), nil)
		case 8:
			add(fmt.Sprintf("doc:d%d", r.Intn(6)), "owner", user(), nil)
		case 9:
			add(fmt.Sprintf("doc:d%d", r.Intn(6)), "blocked", rec.Pick(r, []string{user(), fmt.Sprintf("group:g%d#member", r.Intn(4))}), nil)
		case 10:
			add(fmt.Sprintf("doc:d%d", r.Intn(6)), "editor", rec.Pick(r, []string{user(), fmt.Sprintf("group:g%d#member", r.Intn(4))}), nil)
		case 11:
			s, _ := structpb.NewStruct(map[string]any{"ip": rec.Pick(r, []string{"10.0.0.1", "10.0.0.2"})})
			add(fmt.Sprintf("doc:d%d", r.Intn(6)), "editor", user(), &openfgav1.RelationshipCondition{Name: "cnd2", Context: rec.Pick(r, []*structpb.Struct{nil, s})})
		default:
			add(fmt.Sprintf("doc:d%d", r.Intn(6)), "viewer", rec.Pick(r, []string{user(), "user:*", fmt.Sprintf("group:g%d#member", r.Intn(4))}), nil)
		}
	}
	return out
}

func genReq(r *rec.Rand) e2eReq {
	q := e2eReq{x: rec.Pick(r, []int{1, 50, 200}), ip: rec.Pick(r, []string{"10.0.0.1", "10.0.0.2"}), higher: r.Chance(1, 12)}
	q.user = rec.Pick(r, []string{"user:u0", "user:u1", "user:u2", "user:u3", "user:u4", "employee:e0", "group:g1#member", "user:zz"})
	if r.Chance(2, 5) {
		q.list = true
		q.typ = rec.Pick(r, []string{"doc", "doc", "folder", "group"})
		switch q.typ {
		case "doc":
			q.relation = rec.Pick(r, []string{"viewer", "can_view", "can_edit", "editor", "owner"})
		case "folder":
			q.relation = rec.Pick(r, []string{"viewer", "owner"})
		default:
			q.relation = "member"
		}
		return q
	}
	switch r.Intn(5) {
	case 0:
		q.object = fmt.Sprintf("folder:f%d", r.Intn(4))
		q.relation = rec.Pick(r, []string{"viewer", "owner"})
	case 1:
		q.object = fmt.Sprintf("group:g%d", r.Intn(4))
		q.relation = "member"
	default:
		q.object = fmt.Sprintf("doc:d%d", r.Intn(6))
		q.relation = rec.Pick(r, []string{"viewer", "can_view", "can_edit", "editor", "owner"})
	}
	return q
}

type storeRef struct {
	es      *e2eServer
	storeID string
	modelID string
}

func setupStore(es *e2eServer, tuples []*openfgav1.TupleKey) (storeRef, error) {
	ctx := context.Background()
	cs, err := es.srv.CreateStore(ctx, &openfgav1.CreateStoreRequest{Name: "c09store"})
	if err != nil {
		return storeRef{}, err
	}
	m := transformer.MustTransformDSLToProto(e2eModel)
	wm, err := es.srv.WriteAuthorizationModel(ctx, &openfgav1.WriteAuthorizationModelRequest{
		StoreId: cs.GetId(), TypeDefinitions: m.GetTypeDefinitions(), SchemaVersion: m.GetSchemaVersion(), Conditions: m.GetConditions()})
	if err != nil {
		return storeRef{}, err
	}
	for i := 0; i < len(tuples); i += 40 {
		j := i + 40
		if j > len(tuples) {
			j = len(tuples)
		}
		_, err = es.srv.Write(ctx, &openfgav1.WriteRequest{StoreId: cs.GetId(), AuthorizationModelId: wm.GetAuthorizationModelId(),
			Writes: &openfgav1.WriteRequestWrites{TupleKeys: tuples[i:j]}})
		if err != nil {
			return storeRef{}, err
		}
	}
	return storeRef{es: es, storeID: cs.GetId(), modelID: wm.GetAuthorizationModelId()}, nil
}

// answer: "T", "F", "E<class>" for Check; sorted objects or "E<class>" for ListObjects
func (s storeRef) do(ctx context.Context, q e2eReq) string {
	c, _ := structpb.NewStruct(map[string]any{"x": float64(q.x), "ip": q.ip})
	pref := openfgav1.ConsistencyPreference_UNSPECIFIED
	if q.higher {
		pref = openfgav1.ConsistencyPreference_HIGHER_CONSISTENCY
	}
	if q.list {
		resp, err := s.es.srv.ListObjects(ctx, &openfgav1.ListObjectsRequest{StoreId: s.storeID, AuthorizationModelId: s.modelID,
			Type: q.typ, Relation: q.relation, User: q.user, Context: c, Consistency: pref})
		if err != nil {
			return "E:" + errText(err)
		}
		objs := append([]string(nil), resp.GetObjects()...)
		sort.Strings(objs)
		return "[" + strings.Join(objs, ",") + "]"
	}
	resp, err := s.es.srv.Check(ctx, &openfgav1.CheckRequest{StoreId: s.storeID, AuthorizationModelId: s.modelID,
		TupleKey: &openfgav1.CheckRequestTupleKey{Object: q.object, Relation: q.relation, User: q.user}, Context: c, Consistency: pref})
	if err != nil {
		return "E:" + errText(err)
	}
	if resp.GetAllowed() {
		return "T"
	}
	return "F"
}

func errText(err error) string {
	switch {
	case errors.Is(err, context.Canceled):
		return "cancelled"
	case errors.Is(err, context.DeadlineExceeded):
		return "deadline"
	}
	s := err.Error()
	if len(s) > 80 {
		s = s[:80]
	}
	return s
}

// ---------------------------------------------------------------------------------------------
// one end-to-end scenario

func runE2E(w *rec.Writer, d caseDesc, wmu *sync.Mutex) {
	r := rec.NewRand(mix(d.Seed, 3, d.Idx))
	pair := []string{"on", "on_shared", "v2_on"}[d.Idx%3]
	ref := "off"
	if pair == "v2_on" {
		ref = "v2_off"
	}
	maxResults := rec.Pick(r, []uint32{2, 3, 5, 8, 1000})
	on := getServer(pair, maxResults)
	off := getServer(ref, 0)
	tuples := genTuples(r)
	sOn, err1 := setupStore(on, tuples)
	sOff, err2 := setupStore(off, tuples)
	lock := func() {
		if wmu != nil {
			wmu.Lock()
		}
	}
	unlock := func() {
		if wmu != nil {
			wmu.Unlock()
		}
	}
	if err1 != nil || err2 != nil {
		lock()
		w.PropFail("C09 e2e: store setup failed", map[string]any{"kind": "C", "seed": d.Seed, "idx": d.Idx, "err": fmt.Sprint(err1, err2)})
		unlock()
		return
	}

	// a pool of requests so that the same sub-queries recur
	pool := make([]e2eReq, r.Range(6, 14))
	for i := range pool {
		pool[i] = genReq(r)
	}
	type obs struct {
		q   e2eReq
		ans string
	}
	var checked []obs
	faulted, fired, own := 0, 0, 0
	nreq := r.Range(25, 45)
	for i := 0; i < nreq; i++ {
		q := rec.Pick(r, pool)
		switch {
		case r.Chance(1, 4): // a request that is cancelled / times out / meets a datastore error somewhere
			faulted++
			mode := rec.Pick(r, []int{1, 5, 5})
			if pair != "on_shared" {
				mode = rec.Pick(r, []int{1, 1, 5, 5, 5, 2, 3, 4})
			}
			ctx, cancel := context.WithCancel(context.Background())
			p := &faultPlan{mode: mode, cancel: cancel}
			p.countdown.Store(int32(r.Range(1, 12)))
			if r.Chance(1, 8) { // a real deadline at an arbitrary moment instead
				cancel()
				ctx, cancel = context.WithTimeout(context.Background(), time.Duration(r.Range(20, 800))*time.Microsecond)
				p = nil
			}
			var ans string
			if p != nil {
				ans = sOn.do(context.WithValue(ctx, planKey{}, p), q)
				if p.fired.Load() {
					fired++
				}
			} else {
				ans = sOn.do(ctx, q)
			}
			cancel()
			if !strings.HasPrefix(ans, "E:") {
				own++
			}
			if r.Chance(1, 2) && pair != "on_shared" {
				on.ds.quiesce(2 * time.Second)
			}
		case r.Chance(1, 6): // the same request three times concurrently
			var wg sync.WaitGroup
			res := make([]string, 3)
			for k := 0; k < 3; k++ {
				wg.Add(1)
				go func(k int) {
					defer wg.Done()
					res[k] = sOn.do(context.Background(), q)
				}(k)
			}
			wg.Wait()
			for _, a := range res {
				checked = append(checked, obs{q, a})
			}
		default:
			checked = append(checked, obs{q, sOn.do(context.Background(), q)})
		}
	}
	// let the background drains finish, then ask everything again
	quiet := on.ds.quiesce(4 * time.Second)
	for _, q := range pool {
		checked = append(checked, obs{q, sOn.do(context.Background(), q)})
	}
	// reference answers: no cache, no faults
	refAns := map[string]string{}
	bad, leaks := 0, 0
	var firstBad, firstLeak string
	for _, o := range checked {
		k := o.q.String()
		a, ok := refAns[k]
		if !ok {
			a = sOff.do(context.Background(), o.q)
			refAns[k] = a
		}
		if a != o.ans {
			// finding shared_admission_cancel_leak: with shared iterators on, a request whose own context
			// was never cancelled joins a storage item whose producer ran under an earlier, cancelled
			// request's context and is told "cancelled" (deterministic reproduction: class D)
			// ListObjects elides cancellation errors of its sub-evaluations ("current list objects behavior
			// is to elide context cancelation errors"), so there the leaked error shows as a shorter list.
			if pair == "on_shared" && faulted > 0 && !strings.HasPrefix(a, "E:") &&
				(o.ans == "E:"+errText(serverErrCancelled) || o.ans == "E:"+errText(serverErrDeadline) ||
					(o.q.list && properSubset(o.ans, a))) {
				leaks++
				if firstLeak == "" {
					firstLeak = fmt.Sprintf("%s: cached=%s uncached=%s", k, o.ans, a)
				}
				continue
			}
			bad++
			if firstBad == "" {
				firstBad = fmt.Sprintf("%s: cached=%s uncached=%s", k, o.ans, a)
			}
		}
	}
	lock()
	defer unlock()
	w.Stat("C.scenarios", 1)
	w.Stat("C.config_"+pair, 1)
	w.Stat("C.requests_compared", len(checked))
	w.Stat("C.requests_with_fault", faulted)
	w.Stat("C.faults_fired", fired)
	w.Stat("C.faulted_requests_that_still_answered", own)
	if !quiet {
		w.Stat("C.quiesce_timeouts", 1)
	}
	if leaks > 0 {
		w.Known("shared_admission_cancel_leak", "C09 e2e: a later request with a live context failed with a cancellation error: "+firstLeak,
			map[string]any{"kind": "C", "seed": d.Seed, "idx": d.Idx, "config": pair, "requests": leaks})
	}
	if bad > 0 {
		w.PropFail("C09 e2e: an answer with the iterator caches on differs from the uncached answer: "+firstBad,
			map[string]any{"kind": "C", "seed": d.Seed, "idx": d.Idx, "config": pair, "mismatches": bad})
	}
	w.Case(d, rec.I(3), rec.S(pair), rec.I(len(checked)), rec.I(bad))
}

func runE2EBatch(w *rec.Writer, seed uint64, n int) {
	var wmu sync.Mutex
	var wg sync.WaitGroup
	sem := make(chan struct{}, 6)
	for i := 0; i < n; i++ {
		wg.Add(1)
		sem <- struct{}{}
		go func(i int) {
			defer wg.Done()
			defer func() { <-sem }()
			runE2E(w, caseDesc{Kind: "C", Seed: seed, Idx: i}, &wmu)
		}(i)
	}
	wg.Wait()
	e2eMu.Lock()
	for _, s := range e2eServers {
		if s.cache != nil {
			w.Stat("C.iterator_cache_sets", int(s.cache.sets.Load()))
			w.Stat("C.iterator_cache_hits", int(s.cache.hits.Load()))
		}
		w.Stat("C.datastore_iterators_opened", int(s.ds.opened.Load()))
	}
	e2eMu.Unlock()
}

// properSubset: both arguments are rendered object lists "[a,b,c]"; the first one is a strict subset.
func properSubset(x, y string) bool {
	if len(x) < 2 || len(y) < 2 || x[0] != '[' || y[0] != '[' {
		return false
	}
	set := map[string]bool{}
	for _, e := range strings.Split(y[1:len(y)-1], ",") {
		set[e] = true
	}
	n := 0
	for _, e := range strings.Split(x[1:len(x)-1], ",") {
		if e == "" {
			continue
		}
		if !set[e] {
			return false
		}
		n++
	}
	return n < len(set)
}
