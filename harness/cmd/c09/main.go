//go:build verif

// Driver for C09 (iterator caches never change answers).
//
// Three kinds of cases, all against the real code of /repo:
//
//	A "direct"  : CachedDatastore (v1) or CachedTupleReader (v2) around a scripted fake reader.  Every
//	              operation (open / Next / Head / Stop / one step of the background drain / invalidation /
//	              eviction / server-context cancellation) and every observation is written as one record that
//	              the oracle replays on the Coq model (Cache/CachedIter.v).  Background goroutines are stepped
//	              deterministically: the fake iterator blocks every call made after Stop on a gate.
//	B "stacked" : SharedIteratorDatastore over CachedDatastore over the fake reader, several clients, free
//	              running background drains (the driver waits for the inner iterator's Stop, never sleeps).
//	C "e2e"     : real server, memory datastore wrapped by a fault injector, Check and ListObjects with all
//	              iterator-cache flags on versus off.
package main

import (
	"bufio"
	"encoding/json"
	"os"
	"time"

	"github.com/openfga/openfga/internal/verifharness/lib/rec"
)

type caseDesc struct {
	Kind string `json:"kind"`
	Seed uint64 `json:"seed"`
	Idx  int    `json:"idx"`
	Nt   *bool  `json:"nt,omitempty"`
}

func mix(seed uint64, class uint64, idx int) uint64 {
	r := rec.NewRand(seed*0x9e3779b97f4a7c15 + class*0x100000001b3 + uint64(idx)*0xd6e8feb86659fd93 + 17)
	return r.Uint64()
}

var hangs int

func runOne(w *rec.Writer, d caseDesc) {
	switch d.Kind {
	case "A":
		runDirect(w, d)
	case "B":
		runStacked(w, d)
	case "C":
		runE2E(w, d, nil)
	case "D":
		runAdmission(w, d)
	case "S":
		runSharedClones(w, d)
	}
}

func main() {
	o := rec.ParseFlags()
	if os.Getenv("C09_DEBUG") != "" {
		pollLimit = 3 * time.Second
	}
	w := rec.NewWriter(o.Out)
	defer w.Close()

	if o.Replay != "" {
		f, err := os.Open(o.Replay)
		if err != nil {
			panic(err)
		}
		defer f.Close()
		sc := bufio.NewScanner(f)
		sc.Buffer(make([]byte, 1<<20), 1<<24)
		for sc.Scan() {
			var d caseDesc
			if json.Unmarshal(sc.Bytes(), &d) == nil && d.Kind != "" {
				runOne(w, d)
			}
		}
		closeE2E()
		return
	}

	// n = number of direct scenarios; the other classes are scaled from it
	nA := o.N
	nB := o.N / 12
	nC := o.N / 60
	if o.Tier == "thorough" {
		nC = o.N / 40
	}
	for i := 0; i < nA && hangs < 12; i++ { // a dozen hanging scenarios are enough evidence
		runDirect(w, caseDesc{Kind: "A", Seed: o.Seed, Idx: i})
	}
	for i := 0; i < nB; i++ {
		runStacked(w, caseDesc{Kind: "B", Seed: o.Seed, Idx: i})
	}
	for i := 0; i < o.N/30; i++ {
		runAdmission(w, caseDesc{Kind: "D", Seed: o.Seed, Idx: i})
	}
	for i := 0; i < o.N/40; i++ {
		runSharedClones(w, caseDesc{Kind: "S", Seed: o.Seed, Idx: i})
	}
	runE2EBatch(w, o.Seed, nC)
	closeE2E()
}
