//go:build verif

package main

import (
	"context"
	"errors"
	"fmt"
	"os"
	"runtime"
	"sort"
	"strings"
	"sync"
	"sync/atomic"
	"time"

	"golang.org/x/sync/singleflight"
	"google.golang.org/protobuf/proto"
	"google.golang.org/protobuf/types/known/structpb"
	"google.golang.org/protobuf/types/known/timestamppb"

	openfgav1 "github.com/openfga/api/proto/openfga/v1"

	"github.com/openfga/openfga/internal/verifharness/lib/rec"
	"github.com/openfga/openfga/pkg/storage"
	"github.com/openfga/openfga/pkg/storage/cache/keys"
	"github.com/openfga/openfga/pkg/storage/storagewrappers"
	"github.com/openfga/openfga/pkg/storage/storagewrappers/sharediterator"
)

const waitLimit = 8 * time.Second

// ---------------------------------------------------------------------------------------------
// canonical forms

func canonCtx(c *openfgav1.RelationshipCondition) string {
	if c == nil || c.GetContext() == nil || len(c.GetContext().GetFields()) == 0 {
		return ""
	}
	b, err := proto.MarshalOptions{Deterministic: true}.Marshal(c.GetContext())
	if err != nil {
		return "?"
	}
	return string(b)
}

func canonStruct(s *structpb.Struct) string {
	if s == nil || len(s.GetFields()) == 0 {
		return ""
	}
	b, err := proto.MarshalOptions{Deterministic: true}.Marshal(s)
	if err != nil {
		return "?"
	}
	return string(b)
}

func canonTs(ts *timestamppb.Timestamp) int64 {
	if ts == nil || ts.AsTime().IsZero() {
		return 0
	}
	return ts.AsTime().Unix()
}

func tupleV(t *openfgav1.Tuple) rec.V {
	k := t.GetKey()
	return rec.L(rec.S(k.GetObject()), rec.S(k.GetRelation()), rec.S(k.GetUser()),
		rec.S(k.GetCondition().GetName()), rec.S(canonCtx(k.GetCondition())), rec.I64(canonTs(t.GetTimestamp())))
}

// result of Next / Head: ( 0 T ) item, ( 1 ) done, ( 2 ) cancelled, ( 3 ) deadline, ( 4 ) other
func resV(t *openfgav1.Tuple, err error) rec.V {
	switch {
	case err == nil:
		return rec.L(rec.I(0), tupleV(t))
	case errors.Is(err, storage.ErrIteratorDone):
		return rec.L(rec.I(1))
	case errors.Is(err, context.Canceled):
		return rec.L(rec.I(2))
	case errors.Is(err, context.DeadlineExceeded):
		return rec.L(rec.I(3))
	}
	return rec.L(rec.I(4))
}

func errClass(err error) int {
	switch {
	case err == nil:
		return 0
	case errors.Is(err, storage.ErrIteratorDone):
		return 1
	case errors.Is(err, context.Canceled):
		return 2
	case errors.Is(err, context.DeadlineExceeded):
		return 3
	}
	return 4
}

var errScripted = errors.New("scripted datastore failure")

// script codes: 0 none, 1 cancelled, 2 deadline, 3 other, 4 wrapped cancelled, 5 wrapped deadline;
// 6, 7, 8 are not errors but SIDE EFFECTS of a call that succeeds: while the call is in progress the
// caller's context is cancelled (6) / reaches its deadline (7), or the server context is cancelled (8).
func scriptErr(code int) error {
	switch code {
	case 1:
		return context.Canceled
	case 2:
		return context.DeadlineExceeded
	case 3:
		return errScripted
	case 4:
		return fmt.Errorf("rows: %w", context.Canceled)
	case 5:
		return fmt.Errorf("rows: %w", context.DeadlineExceeded)
	}
	return nil
}

// manualCtx is a context whose cancellation / expiry is triggered by hand, so that it can happen at
// an exact point INSIDE a call that received it.
type manualCtx struct {
	mu   sync.Mutex
	done chan struct{}
	err  error
}

func newManualCtx() *manualCtx { return &manualCtx{done: make(chan struct{})} }

func (c *manualCtx) Deadline() (time.Time, bool) { return time.Time{}, false }
func (c *manualCtx) Done() <-chan struct{}       { return c.done }
func (c *manualCtx) Value(any) any               { return nil }
func (c *manualCtx) Err() error {
	c.mu.Lock()
	defer c.mu.Unlock()
	return c.err
}
func (c *manualCtx) kill(err error) {
	c.mu.Lock()
	defer c.mu.Unlock()
	if c.err == nil {
		c.err = err
		close(c.done)
	}
}

// mode: 0 live, 1 cancelled, 2 deadline exceeded
func (c *manualCtx) mode() int {
	switch err := c.Err(); {
	case err == nil:
		return 0
	case errors.Is(err, context.Canceled):
		return 1
	}
	return 2
}

// ---------------------------------------------------------------------------------------------
// the scripted inner iterator and reader

const (
	evStopped = 1
	evGate    = 2
)

type fakeIter struct {
	mu      sync.Mutex
	items   []*openfgav1.Tuple
	pos     int
	script  []int
	lossy   bool
	stopped bool
	srvCancel func() // cancels the server context (side effect 8)
	fxFired   int

	bg      atomic.Bool // calls are made by the background goroutine: block them on the gate
	ungated atomic.Bool
	gate    chan struct{}
	events  chan int
	results chan rec.V
}

func newFakeIter(items []*openfgav1.Tuple, script []int, lossy bool) *fakeIter {
	return &fakeIter{items: items, script: append([]int(nil), script...), lossy: lossy,
		gate: make(chan struct{}, 64), events: make(chan int, 256), results: make(chan rec.V, 256)}
}

func (f *fakeIter) call(ctx context.Context, isNext bool) (*openfgav1.Tuple, error) {
	gated := f.bg.Load() && !f.ungated.Load()
	if gated {
		f.events <- evGate
		<-f.gate
	}
	t, err := f.compute(ctx, isNext)
	if gated {
		f.results <- resV(t, err)
	}
	return t, err
}

func (f *fakeIter) compute(ctx context.Context, isNext bool) (*openfgav1.Tuple, error) {
	if err := ctx.Err(); err != nil {
		return nil, err
	}
	f.mu.Lock()
	defer f.mu.Unlock()
	if f.stopped {
		return nil, storage.ErrIteratorDone
	}
	code := 0
	if len(f.script) > 0 {
		code = f.script[0]
		f.script = f.script[1:]
	}
	if code >= 6 { // side effect while the call is in progress; the call itself succeeds
		f.fxFired++
		switch code {
		case 6:
			if mc, ok := ctx.(*manualCtx); ok {
				mc.kill(context.Canceled)
			}
		case 7:
			if mc, ok := ctx.(*manualCtx); ok {
				mc.kill(context.DeadlineExceeded)
			}
		default:
			if f.srvCancel != nil {
				f.srvCancel()
			}
		}
		code = 0
	}
	if code != 0 {
		if f.lossy && isNext && code != 3 && f.pos < len(f.items) {
			f.pos++
		}
		return nil, scriptErr(code)
	}
	if f.pos >= len(f.items) {
		return nil, storage.ErrIteratorDone
	}
	t := f.items[f.pos]
	if isNext {
		f.pos++
	}
	return t, nil
}

func (f *fakeIter) Next(ctx context.Context) (*openfgav1.Tuple, error) { return f.call(ctx, true) }
func (f *fakeIter) Head(ctx context.Context) (*openfgav1.Tuple, error) { return f.call(ctx, false) }
func (f *fakeIter) IsOrdered() bool                                    { return false }
func (f *fakeIter) Stop() {
	f.mu.Lock()
	first := !f.stopped
	f.stopped = true
	f.mu.Unlock()
	if first {
		f.events <- evStopped
	}
}

// waitEvent waits for the next event of this iterator: evStopped, evGate, or 9 on timeout.
func (f *fakeIter) waitEvent() int {
	select {
	case e := <-f.events:
		return e
	case <-time.After(waitLimit):
		return 9
	}
}

func (f *fakeIter) release() { f.gate <- struct{}{} }

func (f *fakeIter) openGates() {
	f.ungated.Store(true)
	for i := 0; i < 32; i++ {
		select {
		case f.gate <- struct{}{}:
		default:
		}
	}
}

type plan struct {
	items   []*openfgav1.Tuple
	script  []int
	lossy   bool
	openErr int
}

type fakeReader struct {
	storage.RelationshipTupleReader
	srvCancel func()
	mu     sync.Mutex
	next   *plan
	last   *fakeIter
	called bool
	all    []*fakeIter
}

func (r *fakeReader) open() (storage.TupleIterator, error) {
	r.mu.Lock()
	defer r.mu.Unlock()
	r.called = true
	p := r.next
	if p == nil {
		p = &plan{}
	}
	if p.openErr != 0 {
		return nil, scriptErr(p.openErr)
	}
	it := newFakeIter(p.items, p.script, p.lossy)
	it.srvCancel = r.srvCancel
	r.last = it
	r.all = append(r.all, it)
	return it, nil
}

func (r *fakeReader) Read(ctx context.Context, store string, f storage.ReadFilter, o storage.ReadOptions) (storage.TupleIterator, error) {
	return r.open()
}
func (r *fakeReader) ReadUsersetTuples(ctx context.Context, store string, f storage.ReadUsersetTuplesFilter, o storage.ReadUsersetTuplesOptions) (storage.TupleIterator, error) {
	return r.open()
}
func (r *fakeReader) ReadStartingWithUser(ctx context.Context, store string, f storage.ReadStartingWithUserFilter, o storage.ReadStartingWithUserOptions) (storage.TupleIterator, error) {
	return r.open()
}

// ---------------------------------------------------------------------------------------------
// a recording in-memory cache

type setRec struct {
	key keys.Key
	val any
}

type recCache struct {
	mu   sync.Mutex
	m    map[keys.Key]any
	sets []setRec
}

func newRecCache() *recCache { return &recCache{m: map[keys.Key]any{}} }

func (c *recCache) Get(k keys.Key) any {
	c.mu.Lock()
	defer c.mu.Unlock()
	return c.m[k]
}
func (c *recCache) Set(k keys.Key, v any, _ time.Duration) {
	c.mu.Lock()
	defer c.mu.Unlock()
	c.m[k] = v
	switch v.(type) {
	case *storage.TupleIteratorCacheEntry, *storagewrappers.V2IteratorCacheEntry:
		c.sets = append(c.sets, setRec{k, v})
	}
}
func (c *recCache) Delete(k keys.Key) {
	c.mu.Lock()
	defer c.mu.Unlock()
	delete(c.m, k)
}
func (c *recCache) Stop() {}

func (c *recCache) nsets() int {
	c.mu.Lock()
	defer c.mu.Unlock()
	return len(c.sets)
}

func entryV(keyID int, v any) rec.V {
	switch e := v.(type) {
	case *storage.TupleIteratorCacheEntry:
		rs := make([]rec.V, 0, len(e.Tuples))
		for _, r := range e.Tuples {
			ts := int64(0)
			if !r.InsertedAt.IsZero() {
				ts = r.InsertedAt.Unix()
			}
			rs = append(rs, rec.L(rec.S(r.ObjectType), rec.S(r.ObjectID), rec.S(r.Relation), rec.S(r.UserObjectType),
				rec.S(r.UserObjectID), rec.S(r.UserRelation), rec.S(r.ConditionName), rec.S(canonStruct(r.ConditionContext)), rec.I64(ts)))
		}
		return rec.L(rec.I(keyID), rec.I(1), rec.L(rs...))
	case *storagewrappers.V2IteratorCacheEntry:
		rs := make([]rec.V, 0, len(e.Entries))
		for _, r := range e.Entries {
			rs = append(rs, rec.L(rec.S(r.ObjectID), rec.S(r.User), rec.S(r.ConditionName), rec.S(canonStruct(r.ConditionContext))))
		}
		return rec.L(rec.I(keyID), rec.I(2), rec.L(rs...))
	}
	return rec.L(rec.I(keyID), rec.I(0), rec.L())
}

// ---------------------------------------------------------------------------------------------
// queries

const storeID = "01HVERIFC09STORE0000000001"

type query struct {
	kind     int // 0 Read, 1 ReadUsersetTuples, 2 ReadStartingWithUser
	object   string
	relation string
	user     string // Read only
	conds    []string
	refs     []*openfgav1.RelationReference // RUT only
	users    []*openfgav1.ObjectRelation    // RSWU only
	objIDs   []string                       // RSWU only (nil = no filter)
	items    []*openfgav1.Tuple
	key      keys.Key
	markers  []keys.Key
	keyID    int
	markerID []int
}

func (q *query) subjects() []string {
	out := make([]string, 0, len(q.users))
	for _, u := range q.users {
		s := u.GetObject()
		if u.GetRelation() != "" {
			s += "#" + u.GetRelation()
		}
		out = append(out, s)
	}
	return out
}

func (q *query) computeKeys() {
	switch q.kind {
	case 0:
		q.key = storage.ReadKey(storeID, storage.ReadFilter{Object: q.object, Relation: q.relation, User: q.user, Conditions: q.conds})
		q.markers = []keys.Key{storage.InvalidIteratorCacheKey(storeID), storage.InvalidIteratorByObjectRelationCacheKey(storeID, q.object, q.relation)}
	case 1:
		q.key = storage.ReadUsersetTuplesKey(storeID, storage.ReadUsersetTuplesFilter{Object: q.object, Relation: q.relation, AllowedUserTypeRestrictions: q.refs, Conditions: q.conds})
		q.markers = []keys.Key{storage.InvalidIteratorCacheKey(storeID), storage.InvalidIteratorByObjectRelationCacheKey(storeID, q.object, q.relation)}
	default:
		q.key = storage.ReadStartingWithUserKey(storeID, q.rswuFilter())
		q.markers = []keys.Key{storage.InvalidIteratorCacheKey(storeID)}
		for _, s := range q.subjects() {
			q.markers = append(q.markers, storage.InvalidIteratorByUserObjectTypeCacheKey(storeID, s, q.object))
		}
	}
}

func (q *query) rswuFilter() storage.ReadStartingWithUserFilter {
	f := storage.ReadStartingWithUserFilter{ObjectType: q.object, Relation: q.relation, UserFilter: q.users, Conditions: q.conds}
	if q.objIDs != nil {
		f.ObjectIDs = storage.NewSortedSet(q.objIDs...)
	}
	return f
}

func (q *query) open(ctx context.Context, ds storage.RelationshipTupleReader, higher bool) (storage.TupleIterator, error) {
	pref := openfgav1.ConsistencyPreference_UNSPECIFIED
	if higher {
		pref = openfgav1.ConsistencyPreference_HIGHER_CONSISTENCY
	}
	co := storage.ConsistencyOptions{Preference: pref}
	switch q.kind {
	case 0:
		return ds.Read(ctx, storeID, storage.ReadFilter{Object: q.object, Relation: q.relation, User: q.user, Conditions: q.conds}, storage.ReadOptions{Consistency: co})
	case 1:
		return ds.ReadUsersetTuples(ctx, storeID, storage.ReadUsersetTuplesFilter{Object: q.object, Relation: q.relation, AllowedUserTypeRestrictions: q.refs, Conditions: q.conds}, storage.ReadUsersetTuplesOptions{Consistency: co})
	}
	return ds.ReadStartingWithUser(ctx, storeID, q.rswuFilter(), storage.ReadStartingWithUserOptions{Consistency: co})
}

func (q *query) v() rec.V {
	ts := make([]rec.V, len(q.items))
	for i, t := range q.items {
		ts[i] = tupleV(t)
	}
	return rec.L(rec.I(q.kind), rec.S(q.object), rec.S(q.relation), rec.LS(q.subjects()), rec.I(q.keyID), rec.LI(q.markerID), rec.L(ts...))
}

// ---------------------------------------------------------------------------------------------
// generators

func genCond(r *rec.Rand) *openfgav1.RelationshipCondition {
	switch r.Intn(8) {
	case 0, 1, 2, 3:
		return nil
	case 4:
		return &openfgav1.RelationshipCondition{Name: "c1"}
	case 5:
		return &openfgav1.RelationshipCondition{Name: "c1", Context: &structpb.Struct{}}
	case 6:
		s, _ := structpb.NewStruct(map[string]any{"ip": "10.0.0." + fmt.Sprint(r.Intn(3)), "n": float64(r.Intn(3))})
		return &openfgav1.RelationshipCondition{Name: "c2", Context: s}
	}
	s, _ := structpb.NewStruct(map[string]any{"k": "v"})
	return &openfgav1.RelationshipCondition{Name: rec.Pick(r, []string{"c1", "cond_x"}), Context: s}
}

func mkTuple(obj, rel, user string, c *openfgav1.RelationshipCondition, ts int64) *openfgav1.Tuple {
	t := &openfgav1.Tuple{Key: &openfgav1.TupleKey{Object: obj, Relation: rel, User: user, Condition: c}}
	if ts > 0 {
		t.Timestamp = timestamppb.New(time.Unix(ts, 0))
	}
	return t
}

var userPool = []string{"user:a", "user:b", "user:*", "group:g#member", "group:h#member", "employee:e", "folder:f1", "folder:f2"}

// genItems produces the store's answer for a query: tuples that match the query (a correct
// datastore), or, when malformed is set, a stream with one tuple that does not.
func genItems(r *rec.Rand, q *query, malformed bool) []*openfgav1.Tuple {
	n := rec.Pick(r, []int{0, 1, 1, 2, 2, 3, 3, 4, 5, 6})
	out := make([]*openfgav1.Tuple, 0, n)
	for i := 0; i < n; i++ {
		var obj, rel, user string
		switch q.kind {
		case 0, 1:
			obj, rel = q.object, q.relation
			if rel == "" {
				rel = rec.Pick(r, []string{"viewer", "parent"})
			}
			user = rec.Pick(r, userPool)
			if q.kind == 0 && q.user != "" {
				if q.user[len(q.user)-1] == ':' {
					user = q.user + fmt.Sprint(i)
				} else {
					user = q.user
				}
			}
			if obj == "" || obj[len(obj)-1] == ':' {
				obj = obj + "x" + fmt.Sprint(i)
			}
		default:
			obj = q.object + ":" + fmt.Sprint(i+1)
			if q.objIDs != nil && len(q.objIDs) > 0 {
				obj = q.object + ":" + rec.Pick(r, q.objIDs)
			}
			rel = q.relation
			subj := q.subjects()
			user = "user:zz"
			if len(subj) > 0 {
				user = rec.Pick(r, subj)
			}
		}
		ts := int64(1 + r.Intn(1000))
		out = append(out, mkTuple(obj, rel, user, genCond(r), ts))
	}
	if malformed && len(out) > 0 {
		i := r.Intn(len(out))
		k := out[i].GetKey()
		switch r.Intn(7) {
		case 6:
			k.User = "robot:r" + fmt.Sprint(i) // a user type the filter did not ask for
		case 0:
			k.Object = "other:" + fmt.Sprint(i)
		case 1:
			k.Relation = "zzz"
		case 2:
			k.User = "anne" // untyped user
		case 3:
			s, _ := structpb.NewStruct(map[string]any{"k": "v"})
			k.Condition = &openfgav1.RelationshipCondition{Name: "", Context: s}
		case 4:
			out[i].Timestamp = nil
		default:
			k.Object = "nocolon"
		}
	}
	return out
}

func genQuery(r *rec.Rand) *query {
	q := &query{kind: r.Intn(3)}
	switch q.kind {
	case 0:
		q.object = rec.Pick(r, []string{"doc:1", "doc:1", "doc:2", "folder:f1", "doc:", "doc", ""})
		q.relation = rec.Pick(r, []string{"parent", "parent", "viewer", ""})
		q.user = rec.Pick(r, []string{"", "folder:", "user:a"})
	case 1:
		q.object = rec.Pick(r, []string{"doc:1", "doc:2", "group:g"})
		q.relation = rec.Pick(r, []string{"viewer", "member"})
		switch r.Intn(4) {
		case 0:
			q.refs = []*openfgav1.RelationReference{{Type: "group", RelationOrWildcard: &openfgav1.RelationReference_Relation{Relation: "member"}}}
		case 1:
			q.refs = []*openfgav1.RelationReference{{Type: "user", RelationOrWildcard: &openfgav1.RelationReference_Wildcard{Wildcard: &openfgav1.Wildcard{}}}}
		case 2:
			q.refs = []*openfgav1.RelationReference{{Type: "group", RelationOrWildcard: &openfgav1.RelationReference_Relation{Relation: "member"}}, {Type: "user"}}
		}
	default:
		q.object = rec.Pick(r, []string{"doc", "folder"})
		q.relation = rec.Pick(r, []string{"viewer", "parent"})
		switch r.Intn(5) {
		case 0:
			q.users = []*openfgav1.ObjectRelation{{Object: "user:a"}}
		case 1:
			q.users = []*openfgav1.ObjectRelation{{Object: "user:a"}, {Object: "user:*"}}
		case 2:
			q.users = []*openfgav1.ObjectRelation{{Object: "group:g", Relation: "member"}}
		case 3:
			q.users = []*openfgav1.ObjectRelation{{Object: "user:a"}, {Object: "employee:*"}}
		default:
			q.users = []*openfgav1.ObjectRelation{{Object: "user:b"}}
		}
		if r.Chance(1, 4) {
			q.objIDs = []string{"1", "2"}[:1+r.Intn(2)]
		}
	}
	if r.Chance(1, 3) {
		q.conds = rec.Pick(r, [][]string{{""}, {"c1"}, {"c1", "c2"}, {"c2", "c1"}})
	}
	return q
}

// mutate returns a query that differs from q in exactly one answer-relevant filter field.
func mutate(r *rec.Rand, q *query) *query {
	c := *q
	c.items = nil
	c.markers, c.markerID = nil, nil
	switch q.kind {
	case 0:
		switch r.Intn(4) {
		case 0:
			c.object = rec.Pick(r, []string{"doc:1", "doc:2", "doc:3"})
		case 1:
			c.relation = rec.Pick(r, []string{"parent", "viewer", "owner"})
		case 2:
			c.user = rec.Pick(r, []string{"", "folder:", "user:a", "group:"})
		default:
			c.conds = rec.Pick(r, [][]string{nil, {""}, {"c1"}, {"c2"}})
		}
	case 1:
		switch r.Intn(4) {
		case 0:
			c.object = rec.Pick(r, []string{"doc:1", "doc:2", "doc:3"})
		case 1:
			c.relation = rec.Pick(r, []string{"viewer", "member", "owner"})
		case 2:
			c.refs = rec.Pick(r, [][]*openfgav1.RelationReference{nil,
				{{Type: "group", RelationOrWildcard: &openfgav1.RelationReference_Relation{Relation: "member"}}},
				{{Type: "group", RelationOrWildcard: &openfgav1.RelationReference_Relation{Relation: "owner"}}},
				{{Type: "user", RelationOrWildcard: &openfgav1.RelationReference_Wildcard{Wildcard: &openfgav1.Wildcard{}}}},
				{{Type: "user"}}})
		default:
			c.conds = rec.Pick(r, [][]string{nil, {""}, {"c1"}, {"c2"}})
		}
	default:
		switch r.Intn(5) {
		case 0:
			c.object = rec.Pick(r, []string{"doc", "folder", "group"})
		case 1:
			c.relation = rec.Pick(r, []string{"viewer", "parent", "owner"})
		case 2:
			c.users = rec.Pick(r, [][]*openfgav1.ObjectRelation{{{Object: "user:a"}}, {{Object: "user:b"}}, {{Object: "user:a"}, {Object: "user:*"}},
				{{Object: "group:g", Relation: "member"}}, {{Object: "group:g", Relation: "owner"}}, {{Object: "group:g"}}})
		case 3:
			c.objIDs = rec.Pick(r, [][]string{nil, {"1"}, {"2"}, {"1", "2"}})
		default:
			c.conds = rec.Pick(r, [][]string{nil, {""}, {"c1"}, {"c2"}})
		}
	}
	return &c
}

// ---------------------------------------------------------------------------------------------
// class A: direct scenario with model correspondence

type liveIter struct {
	it      storage.TupleIterator
	fake    *fakeIter // nil for a cache hit
	raw     bool      // the cache layer returned the inner iterator itself
	q       *query
	stopped bool // Stop was called by the consumer
	reqCtx  *manualCtx // the consumer's request context
	atGate  bool
	waiting int // iterator id whose singleflight call this one joined, -1 otherwise
	bgDone  bool
}

type directEnv struct {
	r        *rec.Rand
	variant  int
	max      int
	cache    *recCache
	reader   *fakeReader
	dss      [3]storage.RelationshipTupleReader // [1] v1 CachedDatastore, [2] v2 CachedTupleReader
	cancel   context.CancelFunc
	queries  []*query
	keyIDs   map[string]int
	keys     []keys.Key
	markIDs  map[string]int
	marks    []keys.Key
	iters    []*liveIter
	inflight map[int]int // key id -> iterator id inside its singleflight call
	ops      []rec.V
	aborted  bool
	lastNow  time.Time
	joinBase int
	skip     bool
}

func (e *directEnv) internKey(k keys.Key) int {
	s := k.String()
	if id, ok := e.keyIDs[s]; ok {
		return id
	}
	id := len(e.keys)
	e.keyIDs[s] = id
	e.keys = append(e.keys, k)
	return id
}

func (e *directEnv) internMark(k keys.Key) int {
	s := k.String()
	if id, ok := e.markIDs[s]; ok {
		return id
	}
	id := len(e.marks)
	e.markIDs[s] = id
	e.marks = append(e.marks, k)
	return id
}

func (e *directEnv) mask() rec.V {
	m := 0
	e.cache.mu.Lock()
	for i, k := range e.keys {
		if _, ok := e.cache.m[k]; ok {
			m |= 1 << uint(i)
		}
	}
	e.cache.mu.Unlock()
	return rec.I(m)
}

// tickClock makes sure the wall clock strictly advances between two operations, so that the real
// timestamps are ordered like the model's logical clock.
func (e *directEnv) tickClock() {
	base := time.Now() // not earlier than any clock reading of the previous operation
	if e.lastNow.After(base) {
		base = e.lastNow
	}
	for {
		n := time.Now()
		if n.After(base) {
			e.lastNow = n
			return
		}
	}
}

func ctxFor(mode int) (context.Context, context.CancelFunc) {
	switch mode {
	case 1:
		c, cancel := context.WithCancel(context.Background())
		cancel()
		return c, cancel
	case 2:
		return context.WithDeadline(context.Background(), time.Unix(1, 0))
	}
	return context.WithCancel(context.Background())
}

func (e *directEnv) opOpen(qi int, higher bool, script []int, lossy bool, openErr int) {
	e.tickClock()
	q := e.queries[qi]
	v := e.variant
	if v == 3 {
		v = 1 + e.r.Intn(2)
	}
	ds := e.dss[v]
	e.reader.mu.Lock()
	e.reader.next = &plan{items: q.items, script: script, lossy: lossy, openErr: openErr}
	e.reader.called = false
	e.reader.last = nil
	e.reader.mu.Unlock()
	it, err := q.open(context.Background(), ds, higher)
	e.reader.mu.Lock()
	called, last := e.reader.called, e.reader.last
	e.reader.mu.Unlock()
	status := 0
	li := &liveIter{q: q, waiting: -1, reqCtx: newManualCtx()}
	switch {
	case err != nil:
		status = 1 + errClass(err) // 3 cancelled, 4 deadline, 5 other
		li.stopped, li.bgDone = true, true
	case !called:
		status = 0 // hit
		li.it = it
	default:
		li.it, li.fake = it, last
		if f, ok := it.(*fakeIter); ok && f == last {
			li.raw = true
			status = 2
		} else {
			status = 1
		}
	}
	e.iters = append(e.iters, li)
	e.ops = append(e.ops, rec.L(rec.I(0), rec.I(qi), rec.Bool(higher), rec.LI(script), rec.Bool(lossy), rec.I(openErr), rec.I(status), rec.I(v), e.mask()))
}

func (e *directEnv) opRead(id int, head bool, mode int) {
	e.tickClock()
	li := e.iters[id]
	if li.it == nil {
		return
	}
	var ctx context.Context
	if mode == 0 { // the request context of this consumer; it may have died during an earlier call
		ctx = li.reqCtx
		mode = li.reqCtx.mode()
	} else {
		c, cancel := ctxFor(mode)
		defer cancel()
		ctx = c
	}
	var t *openfgav1.Tuple
	var err error
	code := 1
	if head {
		code = 2
		t, err = li.it.Head(ctx)
	} else {
		t, err = li.it.Next(ctx)
	}
	e.ops = append(e.ops, rec.L(rec.I(code), rec.I(id), rec.I(mode), resV(t, err), e.mask()))
}

func (e *directEnv) opStop(id int) {
	e.tickClock()
	li := e.iters[id]
	if li.it == nil {
		return
	}
	first := !li.stopped
	li.stopped = true
	if li.fake != nil && !li.raw && first {
		li.fake.bg.Store(true)
	}
	li.it.Stop()
	ev := 0
	if li.fake != nil && first {
		ev = li.fake.waitEvent()
		switch ev {
		case evGate:
			li.atGate = true
		case evStopped:
			li.bgDone = true
		default:
			e.abort()
		}
	}
	e.ops = append(e.ops, rec.L(rec.I(3), rec.I(id), rec.I(ev), e.mask()))
}

func (e *directEnv) abort() {
	e.aborted = true
	for _, li := range e.iters {
		if li.fake != nil {
			li.fake.openGates()
		}
	}
}

// opBg lets the background goroutine of iterator id perform exactly one call on the inner iterator.
func (e *directEnv) opBg(id int) {
	e.tickClock()
	li := e.iters[id]
	if li.fake == nil || !li.atGate || e.aborted {
		return
	}
	inLoop := e.inflight[li.q.keyID] == id+1
	li.atGate = false
	li.fake.release()
	var res rec.V
	select {
	case res = <-li.fake.results:
	case <-time.After(waitLimit):
		e.abort()
		e.ops = append(e.ops, rec.L(rec.I(4), rec.I(id), rec.L(rec.I(9)), rec.I(9), rec.L(), e.mask()))
		return
	}
	isDone := string(res) == string(rec.L(rec.I(1)))
	ev := 0
	expectEvent := true
	if !inLoop && !isDone {
		// Head returned something else than Done: the goroutine enters singleflight
		if owner, ok := e.inflight[li.q.keyID]; ok && owner != 0 {
			li.waiting = owner - 1
			expectEvent = false
			// wait until the goroutine is really blocked inside singleflight.Do, so that the order
			// "joined, then the owner finished" is not left to the scheduler
			want := e.joinBase
			for _, x := range e.iters {
				if x.waiting >= 0 && !x.bgDone {
					want++
				}
			}
			if !waitJoiners(want) {
				e.skip = true // the goroutine dump never showed it blocked: no verdict from this scenario
				e.abort()
			}
		} else {
			e.inflight[li.q.keyID] = id + 1
		}
	}
	var finished []int
	if expectEvent {
		ev = li.fake.waitEvent()
		switch ev {
		case evGate:
			li.atGate = true
		case evStopped:
			li.bgDone = true
			if e.inflight[li.q.keyID] == id+1 {
				delete(e.inflight, li.q.keyID)
				for j, w := range e.iters {
					if w.waiting == id && !w.bgDone {
						if w.fake.waitEvent() == evStopped {
							w.bgDone = true
							w.waiting = -1
							finished = append(finished, j)
						} else {
							e.abort()
						}
					}
				}
			}
		default:
			e.abort()
		}
	}
	e.ops = append(e.ops, rec.L(rec.I(4), rec.I(id), res, rec.I(ev), rec.LI(finished), e.mask()))
}

// countJoiners: goroutines blocked in singleflight.Do waiting for another caller's result.
var stackBuf = make([]byte, 8<<20)

func countJoiners() int {
	buf := stackBuf
	n := runtime.Stack(buf, true)
	c := 0
	for _, g := range strings.Split(string(buf[:n]), "\n\n") {
		if strings.Contains(g, "singleflight.(*Group).Do") && strings.Contains(g, "sync.(*WaitGroup).Wait") {
			c++
		}
	}
	return c
}

// pollLimit bounds the polls of the goroutine dump (each dump stops the world, so the polls are
// spaced out; the outcome never depends on the spacing, only on the goroutine eventually blocking).
var pollLimit = 30 * time.Second

func waitJoiners(want int) bool {
	deadline := time.Now().Add(pollLimit)
	for countJoiners() < want {
		if time.Now().After(deadline) {
			return false
		}
		time.Sleep(100 * time.Microsecond)
	}
	return true
}

// opInval writes an invalidation marker: when 0 = long ago, 1 = now, 2 = in the future,
// 3 = exactly the timestamp of the entry currently cached under key (now if there is none).
func (e *directEnv) opInval(marker int, when int, key int) {
	e.tickClock()
	var t time.Time
	switch when {
	case 0:
		t = e.lastNow.Add(-time.Hour)
	case 1:
		t = e.lastNow
	case 2:
		t = e.lastNow.Add(time.Hour)
	default:
		t = e.lastNow
		switch v := e.cache.Get(e.keys[key]).(type) {
		case *storage.TupleIteratorCacheEntry:
			t = v.LastModified
		case *storagewrappers.V2IteratorCacheEntry:
			t = v.LastModified
		}
	}
	e.cache.Set(e.marks[marker], &storage.InvalidEntityCacheEntry{LastModified: t}, time.Hour)
	e.ops = append(e.ops, rec.L(rec.I(5), rec.I(marker), rec.I(when), rec.I(key), e.mask()))
}

func (e *directEnv) opEvict(key int) {
	e.tickClock()
	e.cache.Delete(e.keys[key])
	e.ops = append(e.ops, rec.L(rec.I(6), rec.I(key), e.mask()))
}

func (e *directEnv) opCancelServer() {
	e.tickClock()
	e.cancel()
	e.ops = append(e.ops, rec.L(rec.I(7), e.mask()))
}

func (e *directEnv) gated() []int {
	var out []int
	for i, li := range e.iters {
		if li.atGate {
			out = append(out, i)
		}
	}
	return out
}

func genScript(r *rec.Rand) []int {
	if r.Chance(2, 5) {
		return nil
	}
	n := r.Range(1, 8)
	s := make([]int, n)
	for i := range s {
		if r.Chance(1, 3) {
			s[i] = rec.Pick(r, []int{1, 1, 2, 3, 3, 4, 5, 6, 6, 6, 7, 7, 8})
		}
	}
	return s
}

func runDirect(w *rec.Writer, d caseDesc) {
	r := rec.NewRand(mix(d.Seed, 1, d.Idx))
	e := &directEnv{r: r, keyIDs: map[string]int{}, markIDs: map[string]int{}, inflight: map[int]int{}}
	e.joinBase = countJoiners()
	e.variant = rec.Pick(r, []int{1, 1, 2, 2, 3}) // 3: both engines' readers over one cache and one singleflight group
	if e.variant == 1 {
		e.max = rec.Pick(r, []int{0, 1, 2, 3, 3, 4, 5, 6, 8, 100, 100})
	} else {
		e.max = rec.Pick(r, []int{1, 2, 3, 3, 4, 5, 6, 8, 100, 100})
	}
	e.cache = newRecCache()
	srvCtx, cancel := context.WithCancel(context.Background())
	e.reader = &fakeReader{srvCancel: cancel}
	e.cancel = cancel
	defer cancel()
	sf := &singleflight.Group{}
	wg := &sync.WaitGroup{}
	e.dss[1] = storagewrappers.NewCachedDatastore(srvCtx, e.reader, e.cache, e.max, time.Hour, sf, wg)
	e.dss[2] = storagewrappers.NewCachedTupleReader(srvCtx, e.reader, e.cache, e.max, time.Hour, sf, wg, time.Minute)

	// queries: one to three, the later ones often one-field mutations of the first
	malformed := r.Chance(1, 10)
	lossyWorld := r.Chance(1, 12)
	nq := r.Range(1, 3)
	for i := 0; i < nq; i++ {
		var q *query
		if i > 0 && r.Chance(3, 5) {
			q = mutate(r, e.queries[0])
		} else {
			q = genQuery(r)
		}
		q.computeKeys()
		// the store's answer is a function of the filter: identical filters share it
		for _, p := range e.queries {
			if p.key.String() == q.key.String() && sameFilter(p, q) {
				q.items = p.items
			}
		}
		if q.items == nil {
			q.items = genItems(r, q, malformed && i == 0)
			if q.items == nil {
				q.items = []*openfgav1.Tuple{}
			}
		}
		q.keyID = e.internKey(q.key)
		for _, m := range q.markers {
			q.markerID = append(q.markerID, e.internMark(m))
		}
		e.queries = append(e.queries, q)
	}

	w.Stat("A.scenarios", 1)
	w.Stat(fmt.Sprintf("A.variant_v%d", e.variant), 1)
	if malformed {
		w.Stat("A.malformed_stream", 1)
	}
	if lossyWorld {
		w.Stat("A.lossy_inner", 1)
	}

	nops := r.Range(6, 30)
	cancelledServer := false
	for step := 0; step < nops && !e.aborted; step++ {
		x := r.Intn(100)
		switch {
		case len(e.iters) == 0 || x < 14:
			if len(e.iters) >= 6 {
				continue
			}
			openErr := 0
			if r.Chance(1, 12) {
				openErr = rec.Pick(r, []int{1, 2, 3})
			}
			e.opOpen(r.Intn(len(e.queries)), r.Chance(1, 10), genScript(r), lossyWorld && r.Chance(1, 2), openErr)
		case x < 52:
			id := r.Intn(len(e.iters))
			mode := 0
			if r.Chance(1, 6) {
				mode = 1 + r.Intn(2)
			}
			e.opRead(id, false, mode)
		case x < 60:
			id := r.Intn(len(e.iters))
			mode := 0
			if r.Chance(1, 8) {
				mode = 1 + r.Intn(2)
			}
			e.opRead(id, true, mode)
		case x < 72:
			e.opStop(r.Intn(len(e.iters)))
		case x < 90:
			if g := e.gated(); len(g) > 0 {
				e.opBg(rec.Pick(r, g))
			}
		case x < 94:
			e.opInval(r.Intn(len(e.marks)), rec.Pick(r, []int{0, 1, 1, 2, 3, 3}), r.Intn(len(e.keys)))
		case x < 98:
			e.opEvict(r.Intn(len(e.keys)))
		default:
			if !cancelledServer && r.Chance(1, 3) {
				cancelledServer = true
				e.opCancelServer()
				w.Stat("A.server_ctx_cancelled", 1)
			}
		}
	}
	// stop everything and let every background goroutine finish, step by step
	for i := range e.iters {
		if !e.iters[i].stopped && !e.aborted && r.Chance(2, 3) {
			// sometimes read to the end first
			if r.Chance(1, 2) {
				for k := 0; k < 12 && !e.aborted; k++ {
					e.opRead(i, false, 0)
				}
			}
			e.opStop(i)
		}
	}
	e.finishBg()
	for i := range e.iters {
		if !e.iters[i].stopped && !e.aborted {
			e.opStop(i)
		}
	}
	e.finishBg()
	// second reads: every query once more through the cache, to the end, with a live context
	if !e.aborted {
		for qi := range e.queries {
			e.opOpen(qi, false, nil, false, 0)
			id := len(e.iters) - 1
			for k := 0; k < len(e.queries[qi].items)+2 && !e.aborted; k++ {
				e.opRead(id, false, 0)
			}
			e.opStop(id)
			e.finishBg()
		}
	}
	hung := 0
	if e.aborted {
		hung = 1
		hangs++
		w.Stat("A.aborted", 1)
	}
	e.abort() // nothing may stay blocked
	leftover := 0
	for _, f := range e.reader.all {
		for {
			select {
			case <-f.events:
				leftover++
				continue
			default:
			}
			break
		}
	}
	if hung == 1 {
		leftover = 0 // events produced by the forced un-gating are not observations
	}
	qs := make([]rec.V, len(e.queries))
	for i, q := range e.queries {
		qs[i] = q.v()
	}
	e.cache.mu.Lock()
	ws := make([]rec.V, 0, len(e.cache.sets))
	for _, s := range e.cache.sets {
		ws = append(ws, entryV(e.keyIDs[s.key.String()], s.val))
	}
	e.cache.mu.Unlock()
	if len(ws) > 0 {
		w.Stat("A.scenarios_with_cache_write", 1)
	}
	w.Stat("A.ops", len(e.ops))
	for _, f := range e.reader.all {
		f.mu.Lock()
		w.Stat("A.side_effects_during_successful_inner_calls", f.fxFired)
		f.mu.Unlock()
	}
	if e.skip {
		w.Stat("A.skipped_join_not_observed", 1)
		return
	}
	w.Case(d, rec.I(1), rec.I(e.variant), rec.I(e.max), rec.L(qs...), rec.L(e.ops...), rec.L(ws...), rec.I(leftover), rec.I(hung))
}

func (e *directEnv) finishBg() {
	for guard := 0; guard < 200 && !e.aborted; guard++ {
		g := e.gated()
		if len(g) == 0 {
			return
		}
		e.opBg(rec.Pick(e.r, g))
	}
}

func sameFilter(a, b *query) bool {
	if a.kind != b.kind || a.object != b.object || a.relation != b.relation || a.user != b.user {
		return false
	}
	// the key functions sort these lists: reordered lists are the same filter
	f := func(q *query) string {
		return fmt.Sprintf("%q %q %q %v %q", sorted(q.conds), sorted(q.subjects()), sorted(q.objIDs), q.objIDs == nil, sorted(refsStr(q.refs)))
	}
	return f(a) == f(b)
}

func sorted(xs []string) []string {
	out := append([]string(nil), xs...)
	sort.Strings(out)
	return out
}

func refsStr(rs []*openfgav1.RelationReference) []string {
	var out []string
	for _, r := range rs {
		out = append(out, r.String())
	}
	return out
}

// ---------------------------------------------------------------------------------------------
// class B: shared iterator over cached datastore over the fake reader

func runStacked(w *rec.Writer, d caseDesc) {
	r := rec.NewRand(mix(d.Seed, 2, d.Idx))
	max := rec.Pick(r, []int{1, 2, 3, 4, 5, 8, 100, 100, 100})
	cache := newRecCache()
	srvCtx, cancel := context.WithCancel(context.Background())
	defer cancel()
	reader := &fakeReader{srvCancel: cancel}
	sf := &singleflight.Group{}
	wg := &sync.WaitGroup{}
	cached := storagewrappers.NewCachedDatastore(srvCtx, reader, cache, max, time.Hour, sf, wg)
	st := sharediterator.NewSharedIteratorDatastoreStorage()
	ds := sharediterator.NewSharedIteratorDatastore(cached, st,
		sharediterator.WithMaxAdmissionTime(time.Duration(r.Range(2, 6))*time.Millisecond),
		sharediterator.WithMaxIdleTime(time.Duration(r.Range(1, 3))*time.Millisecond))

	q := genQuery(r)
	for q.kind == 0 && (q.relation == "" || q.object == "" || q.object == "doc" || q.object == "doc:") {
		q = genQuery(r)
	}
	q.computeKeys()
	q.items = genItems(r, q, false)
	if r.Chance(1, 4) { // longer answers: the shared iterator reads in blocks of 100
		for len(q.items) < 130 {
			q.items = append(q.items, genItems(r, q, false)...)
		}
		max = 1000
		cached = storagewrappers.NewCachedDatastore(srvCtx, reader, cache, max, time.Hour, sf, wg)
		ds = sharediterator.NewSharedIteratorDatastore(cached, st, sharediterator.WithMaxAdmissionTime(5*time.Millisecond), sharediterator.WithMaxIdleTime(2*time.Millisecond))
	}
	w.Stat("B.scenarios", 1)

	script := genScript(r)
	reader.next = &plan{items: q.items, script: script}

	type client struct {
		it   storage.TupleIterator
		got  []rec.V
		done bool
		err  int
	}
	nc := r.Range(1, 3)
	var clients []*client
	var outs []rec.V
	for i := 0; i < nc; i++ {
		it, err := q.open(context.Background(), ds, false)
		if err != nil {
			continue
		}
		clients = append(clients, &client{it: it})
	}
	// interleave the clients
	steps := r.Range(0, 3*len(q.items)+6)
	if len(q.items) > 100 {
		steps = r.Range(0, 400)
	}
	for s := 0; s < steps && len(clients) > 0; s++ {
		c := rec.Pick(r, clients)
		if c.done {
			continue
		}
		mode := 0
		if r.Chance(1, 15) {
			mode = 1 + r.Intn(2)
		}
		ctx, cf := ctxFor(mode)
		if r.Chance(1, 8) {
			_, _ = c.it.Head(ctx)
			cf()
			continue
		}
		t, err := c.it.Next(ctx)
		cf()
		switch errClass(err) {
		case 0:
			c.got = append(c.got, tupleV(t))
		case 1:
			c.done = true
		default:
			if mode == 0 {
				c.err = errClass(err)
			}
		}
	}
	for _, c := range clients {
		c.it.Stop()
	}
	// wait until the cache layer has stopped every inner iterator (it does so after flushing)
	hung := 0
	reader.mu.Lock()
	all := append([]*fakeIter(nil), reader.all...)
	reader.mu.Unlock()
	for _, f := range all {
		if f.waitEvent() != evStopped {
			hung = 1
		}
	}
	for _, c := range clients {
		outs = append(outs, rec.L(rec.Bool(c.done), rec.I(c.err), rec.L(c.got...)))
	}
	// the second read, through the same stack
	reader.mu.Lock()
	reader.next = &plan{items: q.items}
	reader.called = false
	reader.mu.Unlock()
	var second []rec.V
	secondDone := false
	it, err := q.open(context.Background(), ds, false)
	if err == nil {
		for k := 0; k < len(q.items)+3; k++ {
			t, e2 := it.Next(context.Background())
			if e2 != nil {
				secondDone = errors.Is(e2, storage.ErrIteratorDone)
				break
			}
			second = append(second, tupleV(t))
		}
		it.Stop()
	}
	reader.mu.Lock()
	secondHit := !reader.called
	all2 := append([]*fakeIter(nil), reader.all[len(all):]...)
	reader.mu.Unlock()
	for _, f := range all2 {
		if f.waitEvent() != evStopped {
			hung = 1
		}
	}
	if secondHit {
		w.Stat("B.second_read_from_cache", 1)
	}
	cache.mu.Lock()
	ws := make([]rec.V, 0, len(cache.sets))
	for _, s := range cache.sets {
		ws = append(ws, entryV(0, s.val))
	}
	cache.mu.Unlock()
	q.keyID = 0
	q.markerID = []int{0, 1}
	w.Case(d, rec.I(2), rec.I(max), q.v(), rec.LI(script), rec.L(outs...), rec.Bool(secondDone), rec.L(second...), rec.L(ws...), rec.I(hung))
}

// ---------------------------------------------------------------------------------------------
// class D: admission into a shared iterator (storageItem.unwrap): what a request gets when it joins
// an item whose producer is still running under ANOTHER request's context

// gateReader behaves like BoundedTupleReader in front of a datastore: the read takes a while (the
// gate), fails with the caller's context error if that context is dead, otherwise returns the
// datastore's answer or error.
type gateReader struct {
	storage.RelationshipTupleReader
	entered chan struct{}
	gate    chan struct{}
	openErr int
	items   []*openfgav1.Tuple
	iters    []*fakeIter
	mu       sync.Mutex
	released atomic.Bool
}

func (g *gateReader) open(ctx context.Context) (storage.TupleIterator, error) {
	if !g.released.Load() { // only the creator's read is held; later (fallback) reads go straight through
		g.entered <- struct{}{}
		<-g.gate
	}
	if err := ctx.Err(); err != nil {
		return nil, err
	}
	if g.openErr != 0 {
		return nil, scriptErr(g.openErr)
	}
	it := newFakeIter(g.items, nil, false)
	g.mu.Lock()
	g.iters = append(g.iters, it)
	g.mu.Unlock()
	return it, nil
}

func (g *gateReader) Read(ctx context.Context, store string, f storage.ReadFilter, o storage.ReadOptions) (storage.TupleIterator, error) {
	return g.open(ctx)
}
func (g *gateReader) ReadUsersetTuples(ctx context.Context, store string, f storage.ReadUsersetTuplesFilter, o storage.ReadUsersetTuplesOptions) (storage.TupleIterator, error) {
	return g.open(ctx)
}
func (g *gateReader) ReadStartingWithUser(ctx context.Context, store string, f storage.ReadStartingWithUserFilter, o storage.ReadStartingWithUserOptions) (storage.TupleIterator, error) {
	return g.open(ctx)
}

func countBlocked(frame string) int {
	n := runtime.Stack(stackBuf, true)
	c := 0
	for _, g := range strings.Split(string(stackBuf[:n]), "\n\n") {
		if strings.Contains(g, frame) && strings.Contains(g, "sync.(*Once).doSlow") && strings.Contains(g, "sync.(*Mutex).Lock") {
			c++
		}
	}
	return c
}

func runAdmission(w *rec.Writer, d caseDesc) {
	r := rec.NewRand(mix(d.Seed, 4, d.Idx))
	q := genQuery(r)
	q.computeKeys()
	q.items = genItems(r, q, false)
	g := &gateReader{entered: make(chan struct{}, 16), gate: make(chan struct{}, 16), items: q.items}
	if r.Chance(1, 4) {
		g.openErr = rec.Pick(r, []int{1, 2, 3})
	}
	withCache := r.Bool()
	var inner storage.RelationshipTupleReader = g
	srvCtx, cancelSrv := context.WithCancel(context.Background())
	defer cancelSrv()
	if withCache {
		inner = storagewrappers.NewCachedDatastore(srvCtx, g, newRecCache(), 100, time.Hour, &singleflight.Group{}, &sync.WaitGroup{})
	}
	// timers that never fire: the item stays admitted, every joiner gets a clone of it
	ds := sharediterator.NewSharedIteratorDatastore(inner, sharediterator.NewSharedIteratorDatastoreStorage(),
		sharediterator.WithMaxAdmissionTime(time.Hour), sharediterator.WithMaxIdleTime(time.Hour))

	nreq := r.Range(1, 4)
	creatorDead := r.Chance(1, 2) // the creator's context is cancelled while its read is in flight
	type result struct {
		it  storage.TupleIterator
		err error
	}
	res := make([]chan result, nreq)
	cancels := make([]context.CancelFunc, nreq)
	base := countBlocked("storageItem).unwrap")
	if os.Getenv("C09_DEBUG") != "" && d.Idx%50 == 0 {
		fmt.Fprintf(os.Stderr, "D idx=%d goroutines=%d base=%d\n", d.Idx, runtime.NumGoroutine(), base)
	}
	hung := 0
	skip := false // the goroutine dump never showed a joiner blocked in unwrap: no verdict
	for i := 0; i < nreq && !skip; i++ {
		ctx, cancel := context.WithCancel(context.Background())
		cancels[i] = cancel
		res[i] = make(chan result, 1)
		go func(i int, ctx context.Context) {
			it, err := q.open(ctx, ds, false)
			res[i] <- result{it, err}
		}(i, ctx)
		if i == 0 {
			select { // the creator is inside its producer
			case <-g.entered:
			case <-time.After(pollLimit):
				hung = 1
			}
		} else {
			deadline := time.Now().Add(pollLimit)
			for countBlocked("storageItem).unwrap") < base+i {
				if time.Now().After(deadline) {
					skip = true
					if os.Getenv("C09_DEBUG") != "" {
						n := runtime.Stack(stackBuf, true)
						fmt.Fprintf(os.Stderr, "D hang idx=%d i=%d base=%d\n%s\n", d.Idx, i, base, stackBuf[:n])
					}
					break
				}
				time.Sleep(100 * time.Microsecond)
			}
		}
	}
	if skip {
		g.released.Store(true)
		for i := 0; i < 8; i++ {
			select {
			case g.gate <- struct{}{}:
			default:
			}
		}
		for _, c := range cancels {
			if c != nil {
				c()
			}
		}
		w.Stat("D.skipped_join_not_observed", 1)
		return
	}
	if creatorDead {
		cancels[0]()
	}
	g.released.Store(true)
	g.gate <- struct{}{}
	outs := make([]rec.V, nreq)
	for i := 0; i < nreq; i++ {
		select {
		case x := <-res[i]:
			outs[i] = rec.I(errClass(x.err))
			if x.it != nil {
				x.it.Stop()
			}
		case <-time.After(pollLimit):
			outs[i] = rec.I(9)
			hung = 1
		}
	}
	for i := 0; i < 8; i++ { // nobody may stay blocked on the gate
		select {
		case g.gate <- struct{}{}:
		default:
		}
	}
	for _, c := range cancels {
		c()
	}
	w.Stat("D.scenarios", 1)
	if creatorDead && nreq > 1 {
		w.Stat("D.joined_a_cancelled_creator", 1)
	}
	w.Case(d, rec.I(4), rec.I(nreq), rec.Bool(creatorDead), rec.I(g.openErr), rec.L(outs...), rec.I(hung))
}

// ---------------------------------------------------------------------------------------------
// class S: clones of one shared iterator with an explicit operation alphabet: clone (a new consumer),
// Next / Head, read-to-the-end, and Stop -- also repeated Stop, Stop after exhaustion and reads after
// Stop -- over results that span several 100-tuple fetch batches.  layer 0: shared iterator directly
// over the scripted reader, timers of one hour (the storage item stays admitted, so the reference
// count is observable: the reader's iterator must never be stopped); layer 1: over CachedDatastore,
// timers of a few tens of milliseconds.

func sameTuple(a, b *openfgav1.Tuple) bool { return string(tupleV(a)) == string(tupleV(b)) }

func runSharedClones(w *rec.Writer, d caseDesc) {
	r := rec.NewRand(mix(d.Seed, 5, d.Idx))
	layer := 0
	if r.Chance(1, 3) {
		layer = 1
	}
	srvCtx, cancel := context.WithCancel(context.Background())
	defer cancel()
	reader := &fakeReader{srvCancel: cancel}
	var below storage.RelationshipTupleReader = reader
	adm, idle := time.Hour, time.Hour
	if layer == 1 {
		below = storagewrappers.NewCachedDatastore(srvCtx, reader, newRecCache(), 10000, time.Hour, &singleflight.Group{}, &sync.WaitGroup{})
		adm, idle = time.Duration(r.Range(30, 50))*time.Millisecond, time.Duration(r.Range(15, 30))*time.Millisecond
	}
	ds := sharediterator.NewSharedIteratorDatastore(below, sharediterator.NewSharedIteratorDatastoreStorage(),
		sharediterator.WithMaxAdmissionTime(adm), sharediterator.WithMaxIdleTime(idle))

	q := genQuery(r)
	for q.kind == 0 && (q.relation == "" || q.object == "" || q.object == "doc" || q.object == "doc:") {
		q = genQuery(r)
	}
	q.computeKeys()
	q.items = genItems(r, q, false)
	if r.Chance(2, 3) { // several fetch batches
		want := r.Range(250, 400)
		for len(q.items) < want {
			q.items = append(q.items, genItems(r, q, false)...)
		}
		q.items = q.items[:want]
	}
	reader.next = &plan{items: q.items}

	type client struct {
		it       storage.TupleIterator
		got      int
		prefixOK bool
		done     bool // Done received before this consumer called Stop
		stopped  bool
		stops    int
		afterOK  bool // after Stop every Next / Head answered Done or an error
		errs     int
	}
	var clients []*client
	var ops []rec.V
	innerStopped := func() rec.V {
		reader.mu.Lock()
		defer reader.mu.Unlock()
		if len(reader.all) == 0 {
			return rec.I(0)
		}
		f := reader.all[0]
		f.mu.Lock()
		defer f.mu.Unlock()
		return rec.Bool(f.stopped)
	}
	open := func() {
		it, err := q.open(context.Background(), ds, false)
		if err != nil {
			ops = append(ops, rec.L(rec.I(0), rec.I(0), innerStopped()))
			return
		}
		clients = append(clients, &client{it: it, prefixOK: true, afterOK: true})
		ops = append(ops, rec.L(rec.I(0), rec.I(1), innerStopped()))
	}
	next := func(c *client, mode int) bool {
		ctx, cf := ctxFor(mode)
		defer cf()
		t, err := c.it.Next(ctx)
		switch errClass(err) {
		case 0:
			if c.stopped {
				c.afterOK = false
			}
			if c.got >= len(q.items) || !sameTuple(t, q.items[c.got]) {
				c.prefixOK = false
			}
			c.got++
			return true
		case 1:
			if !c.stopped {
				c.done = true
			}
		default:
			if mode == 0 {
				c.errs++
			}
		}
		return false
	}
	stop := func(ci int) {
		c := clients[ci]
		c.it.Stop()
		c.stopped = true
		c.stops++
		ops = append(ops, rec.L(rec.I(1), rec.I(ci), innerStopped()))
	}
	open()
	nops := r.Range(4, 30)
	for s := 0; s < nops; s++ {
		x := r.Intn(100)
		switch {
		case len(clients) == 0 || (x < 12 && len(clients) < 4):
			open()
		case x < 40:
			c := rec.Pick(r, clients)
			for k := r.Range(1, 120); k > 0; k-- {
				mode := 0
				if r.Chance(1, 40) {
					mode = 1 + r.Intn(2)
				}
				if !next(c, mode) && mode == 0 {
					break
				}
			}
		case x < 48:
			c := rec.Pick(r, clients)
			ctx, cf := ctxFor(0)
			t, err := c.it.Head(ctx)
			cf()
			if err == nil {
				if c.stopped {
					c.afterOK = false
				}
				if c.got >= len(q.items) || !sameTuple(t, q.items[c.got]) {
					c.prefixOK = false
				}
			}
		case x < 60:
			c := rec.Pick(r, clients)
			for k := 0; k < len(q.items)+2 && next(c, 0); k++ {
			}
		default: // Stop, quite often on a consumer that has been stopped already
			ci := r.Intn(len(clients))
			stop(ci)
			if r.Chance(1, 2) {
				stop(ci)
			}
		}
	}
	// a consumer that arrives now and reads everything, then everybody stops (some twice)
	open()
	last := clients[len(clients)-1]
	for k := 0; k < len(q.items)+2 && next(last, 0); k++ {
	}
	for ci := range clients {
		stop(ci)
		if r.Chance(1, 3) {
			stop(ci)
		}
	}
	hung := 0
	if layer == 1 { // the timers release the base iterator; the cache layer then stops the reader's iterator
		reader.mu.Lock()
		all := append([]*fakeIter(nil), reader.all...)
		reader.mu.Unlock()
		for _, f := range all {
			if f.waitEvent() != evStopped {
				hung = 1
			}
		}
	}
	cs := make([]rec.V, len(clients))
	double := 0
	for i, c := range clients {
		cs[i] = rec.L(rec.Bool(c.done), rec.I(c.got), rec.Bool(c.prefixOK), rec.Bool(c.afterOK), rec.I(c.stops), rec.I(c.errs))
		if c.stops > 1 {
			double++
		}
	}
	w.Stat("S.scenarios", 1)
	w.Stat(fmt.Sprintf("S.layer_%d", layer), 1)
	w.Stat("S.consumers", len(clients))
	w.Stat("S.consumers_stopped_more_than_once", double)
	if len(q.items) > 100 {
		w.Stat("S.results_over_one_batch", 1)
	}
	w.Case(d, rec.I(5), rec.I(layer), rec.I(len(q.items)), rec.L(ops...), rec.L(cs...), rec.I(hung))
}
