//go:build verif

// Driver for C30: the real commands.ExpandQuery on every (object, relation) of generated
// scenarios (memory backend), with part of the tuples passed as contextual tuples, plus a stream
// of malformed / undefined requests and models whose tuple-to-userset names an undefined tupleset
// (built without the validator).  One record per scenario; trees are normalised to
// (kind name payload) with interned names.
//
// Record: 1 model conds stored requests typeNames relNames idNames
//
//	request = (qkind ot oi r ctxTuples outcome)   qkind 0 = object#relation, 1 = empty, 2 = malformed
//	outcome = (0 tree) | (1 errclass)
//	tree    = (0 name ((subject rawuser) ...)) | (1 name userset) | (2 name tupleset ((k t id r) ...))
//	        | (3 name (kids)) | (4 name (kids)) | (5 name base sub) | (9)
package main

import (
	"bufio"
	"context"
	"encoding/json"
	"errors"
	"fmt"
	"os"
	"strings"

	"github.com/oklog/ulid/v2"
	openfgav1 "github.com/openfga/api/proto/openfga/v1"
	"google.golang.org/grpc/status"

	"github.com/openfga/openfga/internal/validation"
	"github.com/openfga/openfga/internal/verifharness/lib/rec"
	"github.com/openfga/openfga/internal/verifharness/lib/scen"
	"github.com/openfga/openfga/pkg/server"
	"github.com/openfga/openfga/pkg/server/commands"
	"github.com/openfga/openfga/pkg/storage"
	"github.com/openfga/openfga/pkg/storage/memory"
	"github.com/openfga/openfga/pkg/typesystem"
)

const ghostRel = "ghostrel"

type reqDesc struct {
	Obj string       `json:"obj"`
	Rel string       `json:"rel"`
	Ctx []scen.Tuple `json:"ctx,omitempty"`
}

type caseDesc struct {
	Scenario *scen.Scenario `json:"scenario"`
	Ghost    bool           `json:"ghost,omitempty"` // model built without the validator (undefined tupleset)
	Stored   []scen.Tuple   `json:"stored"`
	Reqs     []reqDesc      `json:"reqs"`
	Seq      []reqDesc      `json:"seq,omitempty"` // request sequence sent through server.Server.Expand
	Text     string         `json:"text,omitempty"`
}

// Error classes (must match ocaml/c30_oracle.ml).
const (
	errInvalidInput = 0
	errInvalidTuple = 1
	errValidation   = 2
	errRelNotFound  = 3
	errTypeNotFound = 4
	errOther        = 5
)

func classify(err error) int {
	st, ok := status.FromError(err)
	if !ok {
		return errOther
	}
	switch int32(st.Code()) {
	case int32(openfgav1.ErrorCode_invalid_expand_input):
		return errInvalidInput
	case int32(openfgav1.ErrorCode_invalid_tuple):
		return errInvalidTuple
	case int32(openfgav1.ErrorCode_validation_error):
		return errValidation
	case int32(openfgav1.ErrorCode_relation_not_found):
		return errRelNotFound
	case int32(openfgav1.ErrorCode_type_not_found):
		return errTypeNotFound
	}
	return errOther
}

var errNames = []string{"invalid_expand_input", "invalid_tuple", "validation_error", "relation_not_found", "type_not_found", "other"}

// buildTS: the validated typesystem, or (ghost) the unvalidated one.
func buildTS(ctx context.Context, s *scen.Scenario, ghost bool) (*openfgav1.AuthorizationModel, *typesystem.TypeSystem, error) {
	m := s.ModelProto()
	m.Id = ulid.Make().String()
	if ghost {
		ts, err := typesystem.New(m)
		return m, ts, err
	}
	ts, err := typesystem.NewAndValidate(ctx, m)
	if err != nil {
		return nil, nil, scen.ErrModelRejected
	}
	return m, ts, nil
}

// addGhost rewrites one tuple-to-userset to an undefined tupleset (or adds one).
func addGhost(r *rec.Rand, s *scen.Scenario) bool {
	var ttus []*scen.Rewrite
	var rels []*scen.RelDef
	for ti := range s.Types {
		for ri := range s.Types[ti].Rels {
			rd := &s.Types[ti].Rels[ri]
			rels = append(rels, rd)
			rd.RW.Walk(func(x *scen.Rewrite) {
				if x.Op == "ttu" {
					ttus = append(ttus, x)
				}
			})
		}
	}
	if len(rels) == 0 {
		return false
	}
	if len(ttus) > 0 && r.Chance(2, 3) {
		rec.Pick(r, ttus).Tupleset = ghostRel
		return true
	}
	rd := rec.Pick(r, rels)
	g := scen.TTU(ghostRel, "member")
	switch r.Intn(3) {
	case 0:
		rd.RW = scen.Union(rd.RW, g)
	case 1:
		rd.RW = scen.Diff(rd.RW, scen.Inter(g, rd.RW))
	default:
		rd.RW = scen.Inter(g, rd.RW)
	}
	return true
}

func plan(ctx context.Context, w *rec.Writer, r *rec.Rand, s *scen.Scenario) *caseDesc {
	d := &caseDesc{Scenario: s}
	if r.Chance(1, 12) {
		d.Ghost = addGhost(r, s)
	}
	_, ts, err := buildTS(ctx, s, d.Ghost)
	if err != nil {
		if errors.Is(err, scen.ErrModelRejected) {
			w.Stat("models_rejected", 1)
		} else {
			w.Stat("models_unbuildable", 1)
		}
		return nil
	}
	// which tuples become contextual
	var valid, invalid []scen.Tuple
	for _, t := range s.Tuples {
		if validation.ValidateTupleForWrite(ts, t.Proto()) == nil {
			valid = append(valid, t)
		} else {
			invalid = append(invalid, t)
		}
	}
	var moved []scen.Tuple
	isMoved := map[string]bool{}
	if !r.Chance(1, 5) {
		den := r.Range(2, 5)
		for _, t := range valid {
			if len(moved) < 9 && r.Chance(1, den) {
				moved = append(moved, t)
				isMoved[t.Key()] = true
			}
		}
	}
	for _, t := range s.Tuples {
		if !isMoved[t.Key()] {
			d.Stored = append(d.Stored, t)
		}
	}
	badCtx := r.Chance(1, 8) && len(invalid) > 0 // one contextual tuple that the validator refuses
	objects := s.Objects()
	// one object per type that no tuple mentions
	for _, td := range s.Types {
		if len(td.Rels) > 0 && r.Chance(1, 2) {
			objects = append(objects, td.Name+":zz")
		}
	}
	mkCtx := func(obj string) []scen.Tuple {
		if len(moved) == 0 && !badCtx && !r.Chance(1, 3) {
			return nil
		}
		if r.Chance(1, 4) {
			return nil
		}
		c := append([]scen.Tuple{}, moved...)
		rec.Shuffle(r, c)
		// a duplicate of a stored tuple of this object (the user must be listed once), possibly
		// with the condition context changed
		if r.Chance(1, 3) {
			var same []scen.Tuple
			for _, t := range d.Stored {
				if t.Obj == obj && validation.ValidateTupleForWrite(ts, t.Proto()) == nil {
					same = append(same, t)
				}
			}
			if len(same) > 0 {
				t := rec.Pick(r, same)
				if t.Cond != "" && r.Bool() {
					t.Ctx = map[string]any{"x": 7}
				}
				c = append(c, t)
			}
		}
		// the same contextual tuple twice
		if len(c) > 0 && len(c) < 10 && r.Chance(1, 6) {
			c = append(c, rec.Pick(r, c))
		}
		if badCtx && r.Chance(1, 2) {
			c = append(c, rec.Pick(r, invalid))
			rec.Shuffle(r, c)
		}
		return c
	}
	for _, o := range objects {
		ot, _ := scen.SplitObj(o)
		td := s.Type(ot)
		if td == nil {
			continue
		}
		for _, rd := range td.Rels {
			d.Reqs = append(d.Reqs, reqDesc{Obj: o, Rel: rd.Name, Ctx: mkCtx(o)})
		}
	}
	// malformed / undefined requests
	someObj := "doc:1"
	someRel := "viewer"
	if len(d.Reqs) > 0 {
		q := rec.Pick(r, d.Reqs)
		someObj, someRel = q.Obj, q.Rel
	}
	st, _ := scen.SplitObj(someObj)
	bad := []reqDesc{
		{Obj: "", Rel: someRel}, {Obj: someObj, Rel: ""}, {Obj: "", Rel: ""},
		{Obj: st, Rel: someRel}, {Obj: st + ":*", Rel: someRel}, {Obj: ":1", Rel: someRel},
		{Obj: someObj + "#" + someRel, Rel: someRel}, {Obj: "ghost:1", Rel: someRel},
		{Obj: someObj, Rel: "nope"}, {Obj: someObj, Rel: "vie wer"}, {Obj: someObj, Rel: someRel + "#x"},
		{Obj: "user:a", Rel: someRel}, {Obj: st + ": 1", Rel: someRel},
	}
	rec.Shuffle(r, bad)
	for _, b := range bad[:r.Range(2, 5)] {
		b.Ctx = mkCtx(someObj)
		d.Reqs = append(d.Reqs, b)
	}
	// request sequences through the real server (one long-lived server for the whole run): an
	// Expand with contextual tuples, then the same object#relation without them / with others
	if !d.Ghost {
		var withCtx []reqDesc
		for _, q := range d.Reqs {
			if len(q.Ctx) > 0 && q.Obj != "" && q.Rel != "" && !isMalformed(q.Obj, q.Rel) {
				withCtx = append(withCtx, q)
			}
		}
		for i := 0; i < 2 && len(withCtx) > 0; i++ {
			q := rec.Pick(r, withCtx)
			d.Seq = append(d.Seq, q, reqDesc{Obj: q.Obj, Rel: q.Rel})
			if len(q.Ctx) > 1 && r.Bool() {
				d.Seq = append(d.Seq, reqDesc{Obj: q.Obj, Rel: q.Rel, Ctx: q.Ctx[:1]})
			}
		}
		if len(d.Seq) == 0 && len(d.Reqs) > 0 {
			q := d.Reqs[0]
			if q.Obj != "" && q.Rel != "" && !isMalformed(q.Obj, q.Rel) {
				d.Seq = append(d.Seq, reqDesc{Obj: q.Obj, Rel: q.Rel})
			}
		}
	}
	d.Text = s.String()
	return d
}

// ---------------------------------------------------------------------------------------------
// sequences through server.Server.Expand: every answer must be the answer of a fresh
// commands.ExpandQuery for the same single request

type harness struct {
	ds       storage.OpenFGADatastore
	srv      *server.Server
	prevID   string
	prevTS   *typesystem.TypeSystem
	prevScen *scen.Scenario
}

func ctxKeys(ts []scen.Tuple) *openfgav1.ContextualTupleKeys {
	if len(ts) == 0 {
		return nil
	}
	ct := &openfgav1.ContextualTupleKeys{}
	for _, t := range ts {
		ct.TupleKeys = append(ct.TupleKeys, t.Proto())
	}
	return ct
}

func outcomeV(w *rec.Writer, in *scen.Intern, resp *openfgav1.ExpandResponse, err error) rec.V {
	if err != nil {
		return rec.L(rec.I(1), rec.I(classify(err)))
	}
	return rec.L(rec.I(0), encTree(w, in, resp.GetTree().GetRoot()))
}

// seqStep compares the server's answer with the command layer's for one request.
func (h *harness) seqStep(ctx context.Context, w *rec.Writer, d *caseDesc, storeID string, ts *typesystem.TypeSystem, q reqDesc, where string) {
	in := scen.NewIntern()
	req := func() *openfgav1.ExpandRequest {
		return &openfgav1.ExpandRequest{StoreId: storeID,
			TupleKey:         &openfgav1.ExpandRequestTupleKey{Object: q.Obj, Relation: q.Rel},
			ContextualTuples: ctxKeys(q.Ctx)}
	}
	cresp, cerr := commands.NewExpandQuery(h.ds).Execute(typesystem.ContextWithTypesystem(ctx, ts), req())
	sresp, serr := h.srv.Expand(ctx, req())
	cv := outcomeV(w, in, cresp, cerr)
	sv := outcomeV(w, in, sresp, serr)
	w.Stat("server_sequence_expands", 1)
	if len(q.Ctx) > 0 {
		w.Stat("server_sequence_expands_with_ctx", 1)
	}
	if cv != sv {
		w.PropFail(fmt.Sprintf("Expand answer depends on earlier requests: server.Expand(%s#%s, %d contextual tuples, %s) differs from the single-request answer of the command layer", q.Obj, q.Rel, len(q.Ctx), where), d)
	}
}

func (h *harness) sequence(ctx context.Context, w *rec.Writer, d *caseDesc, storeID string, ts *typesystem.TypeSystem) {
	for _, q := range d.Seq {
		h.seqStep(ctx, w, d, storeID, ts, q, "same store")
	}
	// the same object#relation in the store of the previous scenario (when it defines it)
	if h.prevTS != nil {
		seen := map[string]bool{}
		for _, q := range d.Seq {
			k := q.Obj + "#" + q.Rel
			t, _ := scen.SplitObj(q.Obj)
			if seen[k] || h.prevScen.Rel(t, q.Rel) == nil {
				continue
			}
			seen[k] = true
			h.seqStep(ctx, w, d, h.prevID, h.prevTS, reqDesc{Obj: q.Obj, Rel: q.Rel}, "another store")
		}
	}
	if len(d.Seq) > 0 {
		h.prevID, h.prevTS, h.prevScen = storeID, ts, d.Scenario
	}
}

func splitName(name string) (string, string, string) {
	obj, rel := name, ""
	if i := strings.LastIndexByte(name, '#'); i >= 0 {
		obj, rel = name[:i], name[i+1:]
	}
	t, id := scen.SplitObj(obj)
	return t, id, rel
}

func encName(in *scen.Intern, name string) rec.V {
	t, id, rel := splitName(name)
	return rec.L(rec.I(in.T(t)), rec.I(in.ID(id)), rec.I(in.R(rel)))
}

func encTree(w *rec.Writer, in *scen.Intern, n *openfgav1.UsersetTree_Node) rec.V {
	if n == nil {
		return rec.L(rec.I(9))
	}
	name := encName(in, n.GetName())
	switch v := n.GetValue().(type) {
	case *openfgav1.UsersetTree_Node_Leaf:
		switch lv := v.Leaf.GetValue().(type) {
		case *openfgav1.UsersetTree_Leaf_Users:
			w.Stat("node_users", 1)
			us := lv.Users.GetUsers()
			w.Stat("leaf_users_total", len(us))
			if len(us) >= 2 {
				w.Stat("leaf_users_ge2", 1)
			}
			var vs []rec.V
			for _, u := range us {
				vs = append(vs, rec.L(in.Subject(u), rec.S(u)))
			}
			return rec.L(rec.I(0), name, rec.L(vs...))
		case *openfgav1.UsersetTree_Leaf_Computed:
			w.Stat("node_computed", 1)
			return rec.L(rec.I(1), name, encName(in, lv.Computed.GetUserset()))
		case *openfgav1.UsersetTree_Leaf_TupleToUserset:
			w.Stat("node_ttu", 1)
			var vs []rec.V
			for _, c := range lv.TupleToUserset.GetComputed() {
				t, id, rel := splitName(c.GetUserset())
				k := 0
				if id == "*" {
					k = 1
				}
				vs = append(vs, rec.L(rec.I(k), rec.I(in.T(t)), rec.I(in.ID(id)), rec.I(in.R(rel))))
			}
			w.Stat("ttu_computed_total", len(vs))
			if len(vs) >= 2 {
				w.Stat("ttu_computed_ge2", 1)
			}
			return rec.L(rec.I(2), name, encName(in, lv.TupleToUserset.GetTupleset()), rec.L(vs...))
		}
		return rec.L(rec.I(9))
	case *openfgav1.UsersetTree_Node_Union:
		w.Stat("node_union", 1)
		var ks []rec.V
		for _, k := range v.Union.GetNodes() {
			ks = append(ks, encTree(w, in, k))
		}
		return rec.L(rec.I(3), name, rec.L(ks...))
	case *openfgav1.UsersetTree_Node_Intersection:
		w.Stat("node_intersection", 1)
		var ks []rec.V
		for _, k := range v.Intersection.GetNodes() {
			ks = append(ks, encTree(w, in, k))
		}
		return rec.L(rec.I(4), name, rec.L(ks...))
	case *openfgav1.UsersetTree_Node_Difference:
		w.Stat("node_difference", 1)
		return rec.L(rec.I(5), name, encTree(w, in, v.Difference.GetBase()), encTree(w, in, v.Difference.GetSubtract()))
	}
	return rec.L(rec.I(9))
}

func isMalformed(obj, rel string) bool {
	// mirrors tuple.IsValidObject / IsValidRelation on the strings this driver produces
	i := strings.IndexByte(obj, ':')
	if i <= 0 || i == len(obj)-1 || strings.ContainsAny(obj, "# ") || strings.Count(obj, ":") != 1 {
		return true
	}
	if obj[i+1:] == "*" {
		return true
	}
	return strings.ContainsAny(rel, "#:@ ")
}

func (h *harness) run(ctx context.Context, w *rec.Writer, d *caseDesc) {
	s := d.Scenario
	m, ts, err := buildTS(ctx, s, d.Ghost)
	if err != nil {
		w.Stat("replay_model_rejected", 1)
		return
	}
	ds := h.ds
	storeID := ulid.Make().String()
	if _, err := ds.CreateStore(ctx, &openfgav1.Store{Id: storeID, Name: "verif"}); err != nil {
		panic(err)
	}
	if err := ds.WriteAuthorizationModel(ctx, storeID, m); err != nil {
		panic(err)
	}
	s2 := *s
	s2.Tuples = d.Stored
	env := &scen.Env{S: &s2, DS: ds, StoreID: storeID, Model: m, TS: ts}
	if err := env.WriteTuples(ctx, d.Stored); err != nil {
		panic(err)
	}
	w.Stat("scenarios", 1)
	if d.Ghost {
		w.Stat("scenarios_undefined_tupleset", 1)
	}
	w.Stat("shape_"+s.Shape, 1)
	in := scen.NewIntern()
	model := in.Model(s)
	conds := in.Conds(s)
	encT := func(t scen.Tuple) rec.V {
		ce := env.CEval(ctx, t)
		if t.Cond != "" {
			w.Stat([]string{"cond_tuples_met", "cond_tuples_not_met", "cond_tuples_error"}[ce], 1)
		}
		return in.Tuple(t, ce)
	}
	var stored []rec.V
	for _, t := range d.Stored {
		stored = append(stored, encT(t))
		if validation.ValidateTupleForRead(ts, t.Proto()) != nil {
			w.Stat("tuples_stored_invalid_for_read", 1)
		}
	}
	w.Stat("tuples_stored", len(d.Stored))
	tctx := typesystem.ContextWithTypesystem(ctx, ts)
	var reqs []rec.V
	for _, q := range d.Reqs {
		var ct *openfgav1.ContextualTupleKeys
		var cvs []rec.V
		if len(q.Ctx) > 0 {
			ct = &openfgav1.ContextualTupleKeys{}
			for _, t := range q.Ctx {
				ct.TupleKeys = append(ct.TupleKeys, t.Proto())
				cvs = append(cvs, in.Tuple(t, 0))
			}
			w.Stat("requests_with_ctx", 1)
			w.Stat("ctx_tuples", len(q.Ctx))
		}
		resp, err := commands.NewExpandQuery(ds).Execute(tctx, &openfgav1.ExpandRequest{
			StoreId:          storeID,
			TupleKey:         &openfgav1.ExpandRequestTupleKey{Object: q.Obj, Relation: q.Rel},
			ContextualTuples: ct,
		})
		w.Stat("requests", 1)
		var outcome rec.V
		if err != nil {
			c := classify(err)
			w.Stat("err_"+errNames[c], 1)
			outcome = rec.L(rec.I(1), rec.I(c))
		} else {
			w.Stat("trees", 1)
			outcome = rec.L(rec.I(0), encTree(w, in, resp.GetTree().GetRoot()))
		}
		switch {
		case q.Obj == "" || q.Rel == "":
			reqs = append(reqs, rec.L(rec.I(1), rec.I(0), rec.I(0), rec.I(0), rec.L(cvs...), outcome))
		case isMalformed(q.Obj, q.Rel):
			reqs = append(reqs, rec.L(rec.I(2), rec.I(0), rec.I(0), rec.I(0), rec.L(cvs...), outcome))
		default:
			a, b := in.Obj(q.Obj)
			reqs = append(reqs, rec.L(rec.I(0), a, b, rec.I(in.R(q.Rel)), rec.L(cvs...), outcome))
		}
	}
	w.Case(d, rec.I(1), model, conds, rec.L(stored...), rec.L(reqs...),
		rec.LS(in.TypeNames), rec.LS(in.RelNames), rec.LS(in.IDNames))
	if !d.Ghost {
		h.sequence(ctx, w, d, storeID, ts)
	}
}

func main() {
	o := rec.ParseFlags()
	w := rec.NewWriter(o.Out)
	defer w.Close()
	ctx := context.Background()
	h := &harness{ds: memory.New()}
	h.srv = server.MustNewServerWithOpts(server.WithDatastore(h.ds))
	defer h.srv.Close()
	if o.Replay != "" {
		f, err := os.Open(o.Replay)
		if err != nil {
			panic(err)
		}
		defer f.Close()
		sc := bufio.NewScanner(f)
		sc.Buffer(make([]byte, 1<<20), 1<<26)
		for sc.Scan() {
			var d caseDesc
			if json.Unmarshal(sc.Bytes(), &d) != nil || d.Scenario == nil {
				continue
			}
			h.run(ctx, w, &d)
		}
		return
	}
	r := rec.NewRand(o.Seed)
	for i := 0; i < o.N; i++ {
		rr := r.Fork()
		s := scen.Generate(rr, scen.DefaultOpts())
		if d := plan(ctx, w, rr, s); d != nil {
			h.run(ctx, w, d)
		}
	}
}
