//go:build verif

// gen_c16 reads /repo with go/ast and writes coq/Generated/C16KeySites.v:
//
//   - c16_sites: every function that calls keys.GetBuilder() (a cache / plan / map key
//     constructor), with the ordered list of the calls made on that builder: the method and the
//     source text of its argument;
//   - c16_sf_sites: every singleflight-style call X.Do(key, func() (interface{}, error) {...}),
//     with the source text of the key expression.
//
// Store/StoresProofs.v classifies each site (shared cache key with the expression that carries
// the store id / request-local key) and proves by computation that every generated site is
// classified and that the store expression is a string field of the final key; a new call site,
// or a constructor that drops its store field, breaks that proof.
package main

import (
	"bytes"
	"flag"
	"fmt"
	"go/ast"
	"go/parser"
	"go/printer"
	"go/token"
	"os"
	"path/filepath"
	"sort"
	"strings"
)

func fail(format string, a ...any) {
	fmt.Fprintf(os.Stderr, "gen_c16: "+format+"\n", a...)
	os.Exit(1)
}

func coqStr(s string) string { return "\"" + strings.ReplaceAll(s, "\"", "\"\"") + "\"" }

func src(fset *token.FileSet, n ast.Node) string {
	var b bytes.Buffer
	if err := printer.Fprint(&b, fset, n); err != nil {
		return "?"
	}
	return strings.Join(strings.Fields(b.String()), " ")
}

func isGetBuilder(c *ast.CallExpr) bool {
	sel, ok := c.Fun.(*ast.SelectorExpr)
	if !ok || sel.Sel.Name != "GetBuilder" {
		return false
	}
	id, ok := sel.X.(*ast.Ident)
	return ok && id.Name == "keys"
}

type site struct {
	file, fn string
	calls    []string
}

func main() {
	repo := flag.String("repo", "/repo", "repository root")
	out := flag.String("out", "", "output directory (coq/Generated)")
	flag.Parse()
	if *out == "" {
		fail("-out is required")
	}
	fset := token.NewFileSet()
	var files []string
	_ = filepath.Walk(*repo, func(p string, info os.FileInfo, err error) error {
		if err != nil {
			return nil
		}
		if info.IsDir() {
			b := info.Name()
			if b == ".git" || b == "vendor" || b == "node_modules" || b == "verifharness" || b == "testdata" {
				return filepath.SkipDir
			}
			// the key builder's own package constructs no cache keys
			if rel, _ := filepath.Rel(*repo, p); rel == "pkg/storage/cache/keys" {
				return filepath.SkipDir
			}
			return nil
		}
		if strings.HasSuffix(p, ".go") && !strings.HasSuffix(p, "_test.go") {
			files = append(files, p)
		}
		return nil
	})
	sort.Strings(files)

	var sites []site
	var sfSites [][3]string
	for _, p := range files {
		data, err := os.ReadFile(p)
		if err != nil {
			continue
		}
		hasBuilder := bytes.Contains(data, []byte("GetBuilder"))
		hasDo := bytes.Contains(data, []byte(".Do("))
		if !hasBuilder && !hasDo {
			continue
		}
		f, err := parser.ParseFile(fset, p, data, parser.SkipObjectResolution)
		if err != nil {
			fail("parse %s: %v", p, err)
		}
		rel, _ := filepath.Rel(*repo, p)
		for _, d := range f.Decls {
			fd, ok := d.(*ast.FuncDecl)
			if !ok || fd.Body == nil {
				continue
			}
			// builders obtained in this function (there may be several, e.g. two closures)
			type bsite struct {
				ident string
				pos   token.Pos
				calls []string
			}
			var bs []*bsite
			ast.Inspect(fd.Body, func(n ast.Node) bool {
				as, ok := n.(*ast.AssignStmt)
				if !ok || len(as.Lhs) != 1 || len(as.Rhs) != 1 {
					return true
				}
				c, ok := as.Rhs[0].(*ast.CallExpr)
				if !ok || !isGetBuilder(c) {
					return true
				}
				id, ok := as.Lhs[0].(*ast.Ident)
				if !ok {
					fail("%s: %s: keys.GetBuilder() is not assigned to a plain identifier", rel, fd.Name.Name)
				}
				bs = append(bs, &bsite{ident: id.Name, pos: as.Pos()})
				return true
			})
			if hasBuilder {
				// any other use of GetBuilder (not through a plain assignment) must be reported
				n := 0
				ast.Inspect(fd.Body, func(nd ast.Node) bool {
					if c, ok := nd.(*ast.CallExpr); ok && isGetBuilder(c) {
						n++
					}
					return true
				})
				if n != len(bs) {
					fail("%s: %s: a keys.GetBuilder() call is not of the form `x := keys.GetBuilder()`", rel, fd.Name.Name)
				}
			}
			sort.Slice(bs, func(i, j int) bool { return bs[i].pos < bs[j].pos })
			for i, b := range bs {
				end := fd.Body.End()
				if i+1 < len(bs) {
					end = bs[i+1].pos
				}
				ast.Inspect(fd.Body, func(n ast.Node) bool {
					c, ok := n.(*ast.CallExpr)
					if !ok || c.Pos() < b.pos || c.Pos() >= end {
						return true
					}
					sel, ok := c.Fun.(*ast.SelectorExpr)
					if !ok {
						return true
					}
					id, ok := sel.X.(*ast.Ident)
					if !ok || id.Name != b.ident {
						return true
					}
					arg := ""
					if len(c.Args) > 0 {
						arg = src(fset, c.Args[0])
					}
					switch sel.Sel.Name {
					case "EncodeString":
						b.calls = append(b.calls, "C16Str "+coqStr(arg))
					case "EncodeUint64":
						b.calls = append(b.calls, "C16U64 "+coqStr(arg))
					case "EncodeArray":
						b.calls = append(b.calls, "C16Arr "+coqStr(arg))
					case "Serialize":
						b.calls = append(b.calls, "C16Ser "+coqStr(arg))
					case "Reset":
						b.calls = append(b.calls, "C16Reset")
					case "Key", "Close", "Bytes":
						// not a field
					default:
						b.calls = append(b.calls, "C16Other "+coqStr(sel.Sel.Name)+" "+coqStr(arg))
					}
					return true
				})
				name := fd.Name.Name
				if len(bs) > 1 {
					name = fmt.Sprintf("%s#%d", name, i+1)
				}
				sites = append(sites, site{file: rel, fn: name, calls: b.calls})
			}
			// singleflight-style Do(key, func() (interface{}, error))
			if hasDo {
				ast.Inspect(fd.Body, func(n ast.Node) bool {
					c, ok := n.(*ast.CallExpr)
					if !ok || len(c.Args) != 2 {
						return true
					}
					sel, ok := c.Fun.(*ast.SelectorExpr)
					if !ok || sel.Sel.Name != "Do" {
						return true
					}
					fl, ok := c.Args[1].(*ast.FuncLit)
					if !ok || fl.Type.Results == nil || len(fl.Type.Results.List) != 2 {
						return true
					}
					sfSites = append(sfSites, [3]string{rel, fd.Name.Name, src(fset, c.Args[0])})
					return true
				})
			}
		}
	}
	if len(sites) == 0 {
		fail("no keys.GetBuilder() call site found under %s", *repo)
	}
	var sb strings.Builder
	sb.WriteString("(* GENERATED by harness/cmd/gen_c16 from the Go source of /repo on every bin/check run.\n   Do not edit: the file is overwritten. *)\n")
	sb.WriteString("From Coq Require Import List String.\nImport ListNotations.\nOpen Scope string_scope.\n\n")
	sb.WriteString("Inductive c16_call :=\n| C16Str (arg : string)\n| C16U64 (arg : string)\n| C16Arr (arg : string)\n| C16Ser (arg : string)\n| C16Reset\n| C16Other (meth arg : string).\n\n")
	sb.WriteString("Record c16_site := mkC16Site { c16_file : string; c16_func : string; c16_calls : list c16_call }.\n\n")
	sb.WriteString("Definition c16_sites : list c16_site :=\n  [")
	for i, s := range sites {
		if i > 0 {
			sb.WriteString(";\n   ")
		}
		fmt.Fprintf(&sb, "mkC16Site %s %s\n     [%s]", coqStr(s.file), coqStr(s.fn), strings.Join(s.calls, "; "))
	}
	sb.WriteString("].\n\n")
	sb.WriteString("Definition c16_sf_sites : list (string * string * string) :=\n  [")
	for i, s := range sfSites {
		if i > 0 {
			sb.WriteString(";\n   ")
		}
		fmt.Fprintf(&sb, "(%s, %s, %s)", coqStr(s[0]), coqStr(s[1]), coqStr(s[2]))
	}
	sb.WriteString("].\n")
	if err := os.MkdirAll(*out, 0o755); err != nil {
		fail("%v", err)
	}
	dst := filepath.Join(*out, "C16KeySites.v")
	old, _ := os.ReadFile(dst)
	if string(old) != sb.String() {
		if err := os.WriteFile(dst, []byte(sb.String()), 0o644); err != nil {
			fail("%v", err)
		}
	}
}
